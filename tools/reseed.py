#!/usr/bin/env python3
"""Regression run of the machinery itself: tools/reseed.py [name ...]
Every kept seeded change (seeded/<name>/patch.diff) is applied to a fresh scratch copy of /repo (under /root/scratch,
removed afterwards) and the quick tier of the check of the property it breaks is run against the copy (VMON_REPO).
Prints one line per change (CAUGHT / MISSED / NOT-APPLICABLE when the patch no longer applies to the repaired tree)
and records the outcome under "recheck" in seeded/<name>/meta.json.  Exit 1 if a change is missed."""
import json
import os
import shutil
import subprocess
import sys
import tempfile
import time

names = sys.argv[1:] or sorted(os.listdir("/verif/seeded"))
os.makedirs("/root/scratch", exist_ok=True)
missed = []
for name in names:
    d = os.path.join("/verif/seeded", name)
    mp = os.path.join(d, "meta.json")
    if not os.path.exists(mp):
        continue
    meta = json.load(open(mp))
    prop = meta["breaks_property"]
    scratch = tempfile.mkdtemp(prefix="reseed-", dir="/root/scratch")
    try:
        subprocess.check_call(["rsync", "-a", "--exclude", ".git", "--exclude", "__pycache__", "/repo/", scratch + "/"])
        r = subprocess.run(["patch", "-p1", "-s", "-i", os.path.join(d, "patch.diff")], cwd=scratch, stdout=subprocess.PIPE,
                           stderr=subprocess.STDOUT, text=True)
        if r.returncode != 0:
            print("%-6s %s NOT-APPLICABLE (patch no longer applies)" % (name, prop), flush=True)
            meta["recheck"] = {"when": time.strftime("%Y-%m-%d %H:%M"), "outcome": "patch no longer applies"}
        else:
            r = subprocess.run(["./check", prop, "--tier", "quick"], cwd="/verif", env=dict(os.environ, VMON_REPO=scratch),
                               stdout=subprocess.PIPE, stderr=subprocess.STDOUT, text=True)
            keys = [l.strip()[4:] for l in r.stdout.split("\n") if l.startswith("  key=")]
            out = "CAUGHT" if r.returncode == 1 else ("MISSED" if r.returncode == 0 else "INCONCLUSIVE")
            if out != "CAUGHT":
                missed.append(name)
            print("%-6s %s %s exit=%d %s" % (name, prop, out, r.returncode, keys[:3]), flush=True)
            meta["recheck"] = {"when": time.strftime("%Y-%m-%d %H:%M"), "outcome": out.lower(), "exit": r.returncode,
                               "violation_keys": keys[:8]}
        json.dump(meta, open(mp, "w"), indent=1)
    finally:
        shutil.rmtree(scratch, ignore_errors=True)
print("missed:", missed)
sys.exit(1 if missed else 0)
