#!/usr/bin/env python3
"""Regenerate DESIGN.md section 9.4 from seeded/*/meta.json."""
import glob
import json
import os
import re

HERE = os.path.dirname(os.path.dirname(os.path.abspath(__file__)))
rows = []
for mp in sorted(glob.glob(os.path.join(HERE, "seeded", "*", "meta.json"))):
    m = json.load(open(mp))
    notes = m.get("needs_to_manifest", "").replace("\n", " ")
    first = re.split(r"(?<=[.])\s", notes)[0:2]
    caught = []
    for k, v in sorted(m.get("checks_run", {}).items()):
        caught.append("%s: %s" % (k, ("exit 1 (" + ", ".join(v["violation_keys"][:3]) + ")") if v["exit"] == 1 else "exit %d" % v["exit"]))
    rows.append("| %s | %s | %s | demo %s/%s; tests: %s | %s |" % (
        m["name"], m["breaks_property"], " ".join(first)[:260].replace("|", "\\|"),
        m.get("demo_on_unchanged_repo_exit"), m.get("demo_on_changed_copy_exit"),
        m.get("repository_tests_on_changed_copy", "n/a"), "; ".join(caught).replace("|", "\\|")))
text = """Each change below was written by a fresh sub-agent that was given only the property text and its own scratch git
worktree of /repo (nothing from /verif). I confirmed each one myself with `tools/seedeval.py` on a scratch copy outside
/repo and /verif: the patch applies, the demonstration exits 0 on the unchanged repository and non-zero on the changed
copy, the repository's whole test suite passes on the changed copy, and then the named check (quick tier unless stated)
was run against the copy. `seeded/<id>/` holds patch.diff, demo.py and meta.json (with the seeder's own notes on what
the change needs in order to manifest).

| id | property | change / what it needs to manifest (seeder's notes, abridged) | confirmation (demo exit unchanged/changed) | checks run against it |
|---|---|---|---|---|
""" + "\n".join(rows) + """

Changes that were first MISSED and what was strengthened because of them are listed in section 9.5.
"""
p = os.path.join(HERE, "DESIGN.md")
s = open(p).read()
a = s.index("### 9.4 Independently seeded changes")
b = s.index("## Appendix A")
head = "### 9.4 Independently seeded changes (`seeded/`)\n\n"
rest = s[a:b]
tail = ""
if "### 9.5" in rest:
    tail = rest[rest.index("### 9.5"):]
s = s[:a] + head + text + "\n" + tail + ("" if tail.endswith("\n\n") else "\n") + s[b:]
open(p, "w").write(s)
print("rows", len(rows))
