#!/usr/bin/env python3
"""False-alarm screen: run the repository's own test suite with the record-mode contracts attached.
usage: VERIF_MONITOR=1 PYTHONPATH=<repo copy>:/verif:/verif/.deps /venv/bin/python tools/tests_with_monitors.py <repo copy>"""
import os
import sys

os.environ["VERIF_MONITOR"] = "1"
from vmon import attach, common   # noqa

ctx = common.Ctx("SCREEN", {}, "/tmp")
ctx.max_violations = 200
attach.attach_events(ctx)
attach.attach_data(ctx)
import pytest   # noqa
os.chdir(sys.argv[1])
rc = pytest.main(["-q", "-p", "no:cacheprovider", "--timeout=900", "-x", "-q", "verif/tests"])
print("pytest rc", rc)
print("counters", {k: v for k, v in ctx.counters.items()})
for v in ctx.violations[:20]:
    print("CONTRACT FIRED", v["property"], v["key"], v["msg"][:300])
print("notes", ctx.notes[:5])
