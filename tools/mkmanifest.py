#!/usr/bin/env python3
"""Regenerate MANIFEST.json from the table below and from which vmon/props/cXX.py exist."""
import json
import os
import subprocess

HERE = os.path.dirname(os.path.dirname(os.path.abspath(__file__)))

CHECKS = {
    # id: (technique, level text, level note, design ref)
}


def load_table():
    import importlib.util
    spec = importlib.util.spec_from_file_location("mtable", os.path.join(HERE, "tools", "manifest_table.py"))
    m = importlib.util.module_from_spec(spec)
    spec.loader.exec_module(m)
    return m.TABLE, m.PENDING_REASON


def main():
    table, pending = load_table()
    props = [json.loads(l) for l in open(os.path.join(HERE, "properties.jsonl"))]
    hooks_commits = []
    man = {
        "version": 1,
        "setup_cmd": "cd /verif && /venv/bin/python -c \"import sys; sys.path.insert(0,'/verif'); from vmon import common; common.ensure_deps()\"",
        "hooks": {
            "guard": "VERIF_MONITOR",
            "enable": "harness-side attachment only: the checks import verif from /repo's working tree "
                      "(PYTHONPATH=/repo) in fresh worker processes with VERIF_MONITOR=1 and wrap/observe the real "
                      "functions at run time; there are no source patches in /repo, so with the guard unset verif is untouched",
            "baseline_off_cmd": "cd /repo && /venv/bin/python -m pytest -ra -q -p no:cacheprovider --timeout=900 --continue-on-collection-errors",
            "source_commits": hooks_commits,
            "add_only": True,
        },
        "engines": [{"name": "vmon", "path": "vmon/", "serves_properties": sorted(table),
                     "kind_free_text": "runtime monitoring: generated hostile workloads run through the real verif "
                                       "(API, CLI in-process, scripts as subprocesses); monitors = independent reference "
                                       "model, metamorphic pair comparison, trace invariants, record-mode contracts on "
                                       "the real functions, figure read-back, audit hooks"}],
        "checks": [],
        "not_applicable": [],
        "notes": "See DESIGN.md. Exit codes: 0 held on what was observed, 1 violation (VIOLATION line + replay file), "
                 "2 inconclusive (never expected on the unchanged tree). known_findings.json lists genuine defects "
                 "recorded rather than repaired; fixed entries suppress nothing.",
    }
    for p in props:
        pid = p["id"]
        if pid in table and os.path.exists(os.path.join(HERE, "vmon", "props", pid.lower() + ".py")):
            t = table[pid]
            man["checks"].append({
                "property_id": pid,
                "quick_cmd": "./check %s --tier quick" % pid,
                "thorough_cmd": "./check %s --tier thorough" % pid,
                "evidence_file": "evidence/%s.json" % pid,
                "replay_cmd_template": "./check %s --replay {path}" % pid,
                "engine": "vmon",
                "level_claimed": {"category": "exploration", "text": t["level"], "design_ref": t["design"]},
                "level_note": t["note"],
                "technique": t["technique"],
            })
        else:
            man["not_applicable"].append({"property_id": pid, "reason": pending})
    with open(os.path.join(HERE, "MANIFEST.json"), "w") as f:
        json.dump(man, f, indent=1)
    try:
        import jsonschema
        jsonschema.validate(man, json.load(open(os.path.join(HERE, "schemas", "MANIFEST.schema.json"))))
        print("MANIFEST valid: %d checks, %d not_applicable" % (len(man["checks"]), len(man["not_applicable"])))
    except ImportError:
        print("jsonschema not importable; not validated")


if __name__ == "__main__":
    main()
