PENDING_REASON = ("not claimed yet: the runtime-monitoring check for this property (planned in DESIGN.md section 4) "
                  "has not been built/validated at this commit; the technique does apply")

TB = ("trusted base: the independent reference model/oracle in vmon (second implementation, triaged by hand), "
      "CPython, NumPy/SciPy/matplotlib/netCDF4 as installed; verdict = held on the executions observed, not for all inputs")

TABLE = {
 "C01": {"technique": "runtime monitoring: reference-model oracle + cross-input trace invariant + metamorphic perturbation on generated multi-input datasets",
         "level": "Exploration: thousands of generated input families (1-4 inputs, climatology, differing coverage/missingness, text+NetCDF); every get_scores result over all field combos x axes x slices x inputs is compared with an independent valid-case model, inputs must agree on case counts and observations, csv counts and a perturbation metamorphic relation are checked. Right level because the property quantifies over missingness patterns that only generation can reach; no proof is attempted.",
         "note": TB, "design": "DESIGN.md 4/C01"},
 "C19": {"technique": "runtime monitoring: outcome classification of driver.run over the metric x axis x type cross product with exception-site signatures",
         "level": "Exploration (enumeration of a finite option space on a few dataset shapes): every documented metric/diagram x -x dimension x output type x variant is executed in-process; the outcome must be output or error message + non-zero exit. Quick = pairwise-covering sample (~8k command lines), thorough = full product (~190k).",
         "note": TB + "; figures are drawn on the Agg backend without saving", "design": "DESIGN.md 4/C19"},
}

TABLE.update({
 "C05": {"technique": "runtime monitoring: textbook-formula reference oracle on generated vectors and datasets; perfect-score and never-better monitors",
         "level": "Exploration: every deterministic metric x aggregator on thousands of generated obs/fcst vectors (ties, constants, zeros, negatives, NaNs, empty) via compute_from_obs_fcst, on real Data objects (all axes incl. conditional obs/fcst axes) and through csv output, against pure-Python textbook formulas; undefined cases must be NaN/non-finite.",
         "note": TB, "design": "DESIGN.md 4/C05"},
 "C06": {"technique": "runtime monitoring: exhaustive 2x2-table enumeration against an independent formula table, symmetry monitors, conservation contract on the real counting function",
         "level": "Exploration with an exhaustively enumerated finite sub-space: all tables with total <= 8 (quick) / 12 (thorough) x 25 metrics x 8 bin types, realised as obs/fcst vectors with unusable pairs; swap, complement-event and perfect-forecast relations; csv sample; icontract post-condition (a+b+c+d = #valid pairs, counts = documented events) on Contingency._compute_abcd during an ambient CLI workload.",
         "note": TB, "design": "DESIGN.md 4/C06"},
 "C07": {"technique": "runtime monitoring: documented truth table as data, exhaustive order-relation enumeration over all entry points, record-mode contracts on Interval.within/apply_threshold/get_intervals",
         "level": "Exploration with the order-relation space enumerated completely (8 bin types x threshold orders x value relations incl. NaN/+-inf x 5 presentations x 7 entry points incl. CLI csv/figure read-back), plus contracts evaluated ~10^6 times on the real functions under a varied CLI workload.",
         "note": TB, "design": "DESIGN.md 4/C07"},
 "C11": {"technique": "runtime monitoring: independent civil-calendar oracle; partition/conservation trace invariants over recorded slices; exhaustive day enumeration 1900-2100",
         "level": "Exploration + exhaustive conversions: all 73414 days through the five conversion functions; bucket functions on boundary-clustered times; on generated datasets the slices of every axis must partition the pooled cases (multiset union, counts, weighted mean), labels/descriptors/csv counts equal the reference.",
         "note": TB, "design": "DESIGN.md 4/C11"},
 "C13": {"technique": "runtime monitoring: reference CLI interpreter as oracle for grammar-generated command lines; metamorphic option-order and --config pairs; rejection-outcome classification in-process and via real subprocess exit status",
         "level": "Exploration: full decimal grid for vector syntax, date ranges over calendar boundaries, the documented rejection list in several spellings (in-process and /venv/bin/verif subprocess), ~900 (quick) / ~25000 (thorough) generated command lines x 3 variants compared with an independent interpreter of the help text.",
         "note": TB, "design": "DESIGN.md 4/C13"},
 "C15": {"technique": "runtime monitoring: pure-Python statistic oracle per array lane; trailing-window reference model for -T through the real Data object and CLI",
         "level": "Exploration: 14 aggregators + quantile levels on random 1-4-d arrays along every axis; -T/-Tagg/-Tx on generated text/NetCDF inputs with irregular grids, cell-by-cell against the window (l-h, l] of the same series, members / ensemble probabilities / ensemble quantiles included, csv end-to-end.",
         "note": TB + "; float32 tolerance for pre-aggregated values", "design": "DESIGN.md 4/C15"},
})

TABLE.update({
 "C02": {"technique": "runtime monitoring: cell-by-coordinate comparison with the generating dictionary; metamorphic permutation pairs (rows, columns, NetCDF dimension entries, file order) with byte comparison of csv",
         "level": "Exploration: generated 2-4 input families stored in mutually different orders; every cell of get_scores(All) against the file's own value at those coordinates; a battery of csv commands must be byte-identical after permuting inside the files; all <=24 file orders must only permute columns.",
         "note": TB, "design": "DESIGN.md 4/C02"},
 "C03": {"technique": "runtime monitoring: reference selection model for the nine subsetting options; invariants on Data dimensions; outcome classification for empty selections",
         "level": "Exploration: ~670 (quick) / ~18000 (thorough) option sets with hostile value classes (absent values, inclusive end points on station coordinates, reversed ranges, empty selections) observed through --list-*, Data attributes and csv descriptors/counts.",
         "note": TB, "design": "DESIGN.md 4/C03"},
 "C04": {"technique": "runtime monitoring: metamorphic mark-missing vs delete pairs through the real readers for every metric and encoding; no-valid-case => NaN monitor; get_scores post-condition contract",
         "level": "Exploration: each pair writes one dataset twice (cases marked missing in one of 12 encodings vs rows deleted) and compares csv row by row for a metric that uses the field (all ~70 metrics over time), incl. whole slices / whole inputs missing and climatology zeros/missing; an icontract post-condition on Data.get_scores (no NaN/inf in a non-empty result) runs under an ambient CLI workload.",
         "note": TB, "design": "DESIGN.md 4/C04"},
 "C09": {"technique": "runtime monitoring: generated well-formed text files read by the real reader and compared cell by cell with the generating dictionary",
         "level": "Exploration: 640 (quick) / 20000 (thorough) files over column subsets/orders/spellings, separators, row orders, sparsity, missing tokens, comment and metadata lines; every attribute and every cell compared.",
         "note": TB, "design": "DESIGN.md 4/C09"},
 "C10": {"technique": "runtime monitoring: differential comparison of the two real readers on one dictionary, score equality via CLI, text2nc subprocess output read back with netCDF4, type-detection probes",
         "level": "Exploration: generated datasets written as text and NetCDF (optional variables present/absent, five missing encodings, shuffled dimension entries); readers compared by coordinates and with the dictionary; csv scores must be identical; text2nc outputs compared at float32 precision.",
         "note": TB, "design": "DESIGN.md 4/C10"},
})

TABLE.update({
 "C12": {"technique": "runtime monitoring: emitted tables parsed back and compared with scores obtained through the API and with the reference interpreter; -f vs stdout byte comparison; sys.addaudithook on file opens",
         "level": "Exploration: ~640 (quick) / ~15000 (thorough) generated command lines over all metric classes x 19 axes x {csv,text} x {-f, stdout} x {-leg,-acc,-r/-b,-agg}; header, row order, descriptors and every printed number are checked (6 / 4 significant digits), -f content must equal stdout content and be the only file written.",
         "note": TB, "design": "DESIGN.md 4/C12"},
 "C14": {"technique": "runtime monitoring: reference model with climatology (cell-by-cell anomaly values and dropped cases), metamorphic pair `-c X` vs X as extra input, header monitor",
         "level": "Exploration: generated inputs + climatology files with their own coverage/missingness/zeros; every anomaly cell, csv tables on all axes against the reference interpreter, shift-invariant metamorphic relation, legend/column handling.",
         "note": TB, "design": "DESIGN.md 4/C14"},
 "C18": {"technique": "runtime monitoring: sequential-specification checking of request histories (fresh dataset = specification), ledger of returned arrays, SHA-1 of input arrays, cross-process repeatability",
         "level": "Exploration with exhaustive histories: all sequences up to length 3 (plain; length 2 for the other dataset kinds in quick) over a 16-request menu on four dataset kinds (plain, obs-range, climatology, PIT), random histories of length 4-30, and byte comparison of repeated commands in separate processes with different PYTHONHASHSEED.",
         "note": TB, "design": "DESIGN.md 4/C18"},
})

TABLE.update({
 "C08": {"technique": "runtime monitoring: textbook probabilistic-score oracle on generated cdf/quantile/ensemble/PIT datasets; Brier decomposition and complement-event identities as trace invariants",
         "level": "Exploration: generated inputs with probabilities at 0/1/bin edges, constant obs, ensembles of 1-9 members with missing members, thresholds stored in all/some/none of the inputs; Brier family, ignorance, spherical, marginal ratio, quantile score/coverage/spread/spread-skill, PIT statistics through Metric.compute and csv; ensemble-quantile range/monotonicity laws.",
         "note": TB + "; float32 tolerance for ensemble-derived probabilities", "design": "DESIGN.md 4/C08"},
 "C17": {"technique": "runtime monitoring: option -> probe table evaluated on the produced matplotlib figure and on the saved file (magic bytes, pixel size)",
         "level": "Exploration: each of ~47 appearance options alone on every applicable figure kind (standard, location axis, map, pithist, igncontrib, against), all pairs of related options, random compatible subsets of 2-7 options; six image formats by extension.",
         "note": TB + "; figures inspected through matplotlib's object model, not pixels", "design": "DESIGN.md 4/C17"},
 "C20": {"technique": "runtime monitoring: scripts run as real subprocesses; NetCDF outputs read back with netCDF4 and compared with a pure-Python reference of the documented transformation",
         "level": "Exploration: accumulate (all window classes, -i, both axes, cumulative, one >=50x60x30 input per run to reach SciPy's FFT path), ens2prob (cdf/quantile invariants, PIT), expandverif (valid-time matching) on generated text and NetCDF inputs; dimensions and location metadata preserved.",
         "note": TB, "design": "DESIGN.md 4/C20"},
})

TABLE.update({
 "C16": {"technique": "runtime monitoring: figure read-back (matplotlib artists after driver.run) compared with each diagram's defining statistic from the reference model; bin-conservation invariants",
         "level": "Exploration: 34 diagrams/views (standard, obsfcst, qq, scatter, cond, freq, hist, sort, marginal, reliability, invreliability, discrimination, roc, droc, droc0, performance, taylor, error, pithist, spreadskill, murphy, economicvalue, bsdecomp, igncontrib, fss, autocorr, autocov, timeseries, meteo, against, change, map, rank, impact) on generated deterministic/probabilistic datasets with their options; every series' coordinates, series order and, for binned diagrams, sum of bin counts = number of valid cases.",
         "note": TB + "; decorations (confidence bands, reference lines) are not checked", "design": "DESIGN.md 4/C16"},
})
