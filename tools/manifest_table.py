PENDING_REASON = ("not claimed yet: the runtime-monitoring check for this property (planned in DESIGN.md section 4) "
                  "has not been built/validated at this commit; the technique does apply")

TB = ("trusted base: the independent reference model/oracle in vmon (second implementation, triaged by hand), "
      "CPython, NumPy/SciPy/matplotlib/netCDF4 as installed; verdict = held on the executions observed, not for all inputs")

TABLE = {
 "C01": {"technique": "runtime monitoring: reference-model oracle + cross-input trace invariant + metamorphic perturbation on generated multi-input datasets",
         "level": "Exploration: thousands of generated input families (1-4 inputs, climatology, differing coverage/missingness, text+NetCDF); every get_scores result over all field combos x axes x slices x inputs is compared with an independent valid-case model, inputs must agree on case counts and observations, csv counts and a perturbation metamorphic relation are checked. Right level because the property quantifies over missingness patterns that only generation can reach; no proof is attempted.",
         "note": TB, "design": "DESIGN.md 4/C01"},
 "C19": {"technique": "runtime monitoring: outcome classification of driver.run over the metric x axis x type cross product with exception-site signatures",
         "level": "Exploration (enumeration of a finite option space on a few dataset shapes): every documented metric/diagram x -x dimension x output type x variant is executed in-process; the outcome must be output or error message + non-zero exit. Quick = pairwise-covering sample (~8k command lines), thorough = full product (~190k).",
         "note": TB + "; figures are drawn on the Agg backend without saving", "design": "DESIGN.md 4/C19"},
}
