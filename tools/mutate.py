#!/usr/bin/env python3
"""Development aid: apply a textual mutation to /repo, run quick checks, revert.
usage: tools/mutate.py <file-rel-to-repo> <old> <new> <PROP> [<PROP> ...]   (old must occur exactly once unless --all)"""
import subprocess
import sys

args = [a for a in sys.argv[1:] if a != "--all"]
allocc = "--all" in sys.argv
rel, old, new = args[:3]
props = args[3:]
path = "/repo/" + rel
dirty = subprocess.check_output(["git", "-C", "/repo", "status", "--porcelain", "--untracked-files=no"]).decode().strip()
if dirty:
    sys.exit("refusing: /repo has uncommitted changes:\n" + dirty)
s = open(path).read()
n = s.count(old)
if n == 0 or (n > 1 and not allocc):
    sys.exit("pattern occurs %d times" % n)
open(path, "w").write(s.replace(old, new))
try:
    for p in props:
        r = subprocess.run(["./check", p, "--tier", "quick"], cwd="/verif", stdout=subprocess.PIPE, stderr=subprocess.STDOUT, text=True)
        lines = [l for l in r.stdout.split("\n") if l.startswith(("VIOLATION", "  key=", "HELD", "INCONCLUSIVE"))]
        print("== %s exit=%d" % (p, r.returncode))
        print("\n".join(lines[:8]))
finally:
    subprocess.check_call(["git", "-C", "/repo", "checkout", "--", "."])
