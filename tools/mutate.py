#!/usr/bin/env python3
"""Development aid: apply a textual mutation to a scratch COPY of /repo and run quick checks against the copy.
usage: tools/mutate.py <file-rel-to-repo> <old> <new> <PROP> [<PROP> ...]   (old must occur exactly once unless --all)
   or: tools/mutate.py --patch <patchfile> <PROP> [...]"""
import os
import shutil
import subprocess
import sys
import tempfile

args = [a for a in sys.argv[1:] if a not in ("--all",)]
allocc = "--all" in sys.argv
os.makedirs("/root/scratch", exist_ok=True)
scratch = tempfile.mkdtemp(prefix="mut-", dir="/root/scratch")
try:
    subprocess.check_call(["rsync", "-a", "--exclude", ".git", "--exclude", "__pycache__", "/repo/", scratch + "/"])
    if args[0] == "--patch":
        subprocess.check_call(["patch", "-p1", "-s", "-i", os.path.abspath(args[1])], cwd=scratch)
        props = args[2:]
    else:
        rel, old, new = args[:3]
        props = args[3:]
        path = os.path.join(scratch, rel)
        s = open(path).read()
        n = s.count(old)
        if n == 0 or (n > 1 and not allocc):
            sys.exit("pattern occurs %d times" % n)
        open(path, "w").write(s.replace(old, new))
    env = dict(os.environ, VMON_REPO=scratch)
    for p in props:
        r = subprocess.run(["./check", p, "--tier", os.environ.get("MUT_TIER", "quick")], cwd="/verif", stdout=subprocess.PIPE,
                           stderr=subprocess.STDOUT, text=True, env=env)
        lines = [l for l in r.stdout.split("\n") if l.startswith(("VIOLATION", "  key=", "HELD", "INCONCLUSIVE"))]
        print("== %s exit=%d" % (p, r.returncode))
        print("\n".join(lines[:8]))
finally:
    shutil.rmtree(scratch, ignore_errors=True)
