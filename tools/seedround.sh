#!/bin/sh
# tools/seedround.sh <outdir> <suffix> <ids...> : evaluate seeded changes, compact output
out=$1; suf=$2; shift 2
cd "$(dirname "$0")/.." || exit 2
for i in "$@"; do
  [ -f $out/C$i/patch.diff ] || { echo "C$i$suf: no patch yet"; continue; }
  r=$(tools/seedeval.py $out/C$i C$i$suf C$i 2>&1 | grep -v Warning | tr '\n' ' ' | cut -c1-260)
  echo "C$i$suf: $r"
done
