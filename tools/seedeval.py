#!/usr/bin/env python3
"""Evaluate an independently seeded change: tools/seedeval.py <srcdir> <name> <PROP> [more PROPs] [--tests] [--tier thorough]
srcdir holds patch.diff, demo.py, notes.txt. Confirms the demonstration on /repo (passes) and on a scratch copy with the
patch (fails), optionally runs the repository test suite on the copy, runs the named checks against the copy
(VMON_REPO) and writes /verif/seeded/<name>/{patch.diff, demo.py, meta.json}."""
import json
import os
import shutil
import subprocess
import sys
import tempfile

args = [a for a in sys.argv[1:] if not a.startswith("--")]
src, name, props = args[0], args[1], args[2:]
run_tests = "--tests" in sys.argv
tier = "thorough" if "--thorough" in sys.argv else "quick"
os.makedirs("/root/scratch", exist_ok=True)
scratch = tempfile.mkdtemp(prefix="seed-", dir="/root/scratch")
meta = {"name": name, "breaks_property": props[0], "checks_run": {}}
try:
    subprocess.check_call(["rsync", "-a", "--exclude", ".git", "--exclude", "__pycache__", "/repo/", scratch + "/"])
    r = subprocess.run(["patch", "-p1", "-s", "-i", os.path.join(src, "patch.diff")], cwd=scratch, stdout=subprocess.PIPE, stderr=subprocess.STDOUT, text=True)
    if r.returncode != 0:
        sys.exit("patch does not apply: " + r.stdout)
    env0 = dict(os.environ, MPLBACKEND="Agg", PYTHONWARNINGS="ignore")
    tmp = tempfile.mkdtemp(prefix="demo-", dir="/root/scratch")
    shutil.copy(os.path.join(src, "demo.py"), tmp)
    a = subprocess.run(["/venv/bin/python", "demo.py"], cwd=tmp, env=dict(env0, PYTHONPATH="/repo"), stdout=subprocess.PIPE, stderr=subprocess.STDOUT, text=True, timeout=900)
    b = subprocess.run(["/venv/bin/python", "demo.py"], cwd=tmp, env=dict(env0, PYTHONPATH=scratch), stdout=subprocess.PIPE, stderr=subprocess.STDOUT, text=True, timeout=900)
    shutil.rmtree(tmp, ignore_errors=True)
    meta["demo_on_unchanged_repo_exit"] = a.returncode
    meta["demo_on_changed_copy_exit"] = b.returncode
    print("demo: unchanged exit %d, changed exit %d" % (a.returncode, b.returncode))
    if a.returncode != 0:
        print(a.stdout[-800:])
    if run_tests:
        t = subprocess.run(["/venv/bin/python", "-m", "pytest", "-q", "-p", "no:cacheprovider", "--timeout=900", "--continue-on-collection-errors"],
                           cwd=scratch, env=dict(env0, PYTHONPATH=scratch), stdout=subprocess.PIPE, stderr=subprocess.STDOUT, text=True)
        line = [l for l in t.stdout.split("\n") if " passed" in l or " failed" in l][-1:]
        meta["repository_tests_on_changed_copy"] = line[0] if line else "exit %d" % t.returncode
        print("tests:", meta["repository_tests_on_changed_copy"])
    for p in props:
        r = subprocess.run(["./check", p, "--tier", tier], cwd="/verif", env=dict(os.environ, VMON_REPO=scratch), stdout=subprocess.PIPE,
                           stderr=subprocess.STDOUT, text=True)
        keys = [l.strip()[4:] for l in r.stdout.split("\n") if l.startswith("  key=")]
        meta["checks_run"]["%s %s" % (p, tier)] = {"exit": r.returncode, "violation_keys": keys[:8]}
        print("== %s %s exit=%d %s" % (p, tier, r.returncode, keys[:6]))
finally:
    shutil.rmtree(scratch, ignore_errors=True)
out = os.path.join("/verif/seeded", name)
os.makedirs(out, exist_ok=True)
shutil.copy(os.path.join(src, "patch.diff"), out)
shutil.copy(os.path.join(src, "demo.py"), out)
notes = open(os.path.join(src, "notes.txt")).read() if os.path.exists(os.path.join(src, "notes.txt")) else ""
meta["needs_to_manifest"] = notes.strip()[:1500]
old = {}
mp = os.path.join(out, "meta.json")
if os.path.exists(mp):
    old = json.load(open(mp))
    oc = old.get("checks_run", {})
    oc.update(meta["checks_run"])
    meta["checks_run"] = oc
    for k in ("repository_tests_on_changed_copy",):
        if k not in meta and k in old:
            meta[k] = old[k]
meta["what_i_ran"] = ("tools/seedeval.py: patch applied to a scratch copy of /repo (outside /repo and /verif); demo.py run with PYTHONPATH=/repo "
                      "(must exit 0) and PYTHONPATH=<copy> (must exit non-zero); repository test suite on the copy; ./check <ID> with VMON_REPO=<copy>")
json.dump(meta, open(mp, "w"), indent=1)
