#!/bin/sh
# tools/trial.sh <PROP> <seed-dir-with-patch.diff> [tier] : run <PROP>'s check on the unchanged tree and on a scratch copy with the patch
p=$1; src=$2; tier=${3:-quick}
cd "$(dirname "$0")/.." || exit 2
mkdir -p /root/scratch; s=$(mktemp -d /root/scratch/trial-XXXXXX)
rsync -a --exclude .git --exclude __pycache__ /repo/ $s/ && patch -p1 -s -d $s -i $src/patch.diff || exit 2
echo "--- unchanged:"; ./check $p --tier $tier 2>&1 | grep -v Warning | grep -E "^(VIOLATION|INCONCLUSIVE|HELD|KNOWN|  key=)" | sort | uniq -c | head -12
echo "--- with patch:"; VMON_REPO=$s ./check $p --tier $tier 2>&1 | grep -v Warning | grep -E "^(INCONCLUSIVE|HELD|  key=)" | sort | uniq -c | head -12
rm -rf $s
