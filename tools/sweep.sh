#!/bin/sh
# tools/sweep.sh <tier> <seed-list> [props...] : run checks over several seeds; print one line per run, details on failure
tier=$1; seeds=$2; shift 2
props=${*:-"C01 C02 C03 C04 C05 C06 C07 C08 C09 C10 C11 C12 C13 C14 C15 C16 C17 C18 C19 C20"}
cd "$(dirname "$0")/.." || exit 2
fail=0
for s in $seeds; do
  for p in $props; do
    [ -f vmon/props/$(echo $p | tr A-Z a-z).py ] || continue
    out=$(VERIF_SEED=$s PYTHONHASHSEED=${PYTHONHASHSEED:-0} ./check $p --tier $tier 2>&1); rc=$?
    line=$(echo "$out" | grep -E "^$p tier=" | cut -c1-160)
    echo "seed=$s $p rc=$rc $line"
    if [ $rc -ne 0 ]; then fail=1; echo "$out" | grep -v "Warning" | grep -E -A6 "^(VIOLATION|INCONCLUSIVE)" | cut -c1-600 | head -40; fi
  done
done
exit $fail
