"""Shard worker: python -m vmon.worker <PROP> <desc.json> <out.json> <workdir>"""
import json
import os
import sys
import time
import traceback


def main():
    prop, dfile, ofile, workdir = sys.argv[1:5]
    with open(dfile) as f:
        desc = json.load(f)
    from vmon import common, reach
    reach.start()
    mod = common.load_prop(prop)
    ctx = common.Ctx(prop, desc, workdir)
    if desc.get("tz"):
        os.environ["TZ"] = desc["tz"]
        time.tzset()
        ctx.count("shards_under_tz:" + desc["tz"])
    try:
        if "replay" in desc:
            mod.replay(desc["replay"], ctx)
        else:
            mod.run_shard(desc, ctx)
    except Exception as e:
        # An exception that escapes from the real verif code while a check drives it through the API is an observation
        # about verif, not a harness failure: record it as a violation (the rest of this shard is lost). Exceptions
        # raised by the harness itself (no /repo frame at the raising end) still abort the worker -> inconclusive.
        from vmon import runner
        tb = e.__traceback__
        last = None
        for fs, lineno in traceback.walk_tb(tb):
            last = fs.f_code.co_filename
        where = runner.innermost_repo_frame(tb)
        if where is None or last is None or not last.startswith((runner.REPO, "/venv", "/usr")):
            raise
        ctx.violation("exception-in-verif|%s@%s" % (type(e).__name__, where),
                      "the real code raised while the check was driving it through its API:\n" +
                      "".join(traceback.format_exception(type(e), e, tb))[-2500:], {"shard": desc})
    except SystemExit as e:
        ctx.violation("error-exit-in-verif-api", "verif called sys.exit(%r) on generated well-formed data while the check was driving it "
                      "through its API (shard %s)" % (e.code, json.dumps(desc)[:300]), {"shard": desc})
    res = ctx.result()
    res["reached"] = reach.stop()
    for name in getattr(mod, "ANCHOR_FUNCS", []):
        if any(r.endswith(name) for r in res["reached"]):
            res["counters"]["reached:" + name] = res["counters"].get("reached:" + name, 0) + 1
    res.pop("reached")
    with open(ofile + ".tmp", "w") as f:
        json.dump(res, f)
    os.replace(ofile + ".tmp", ofile)


if __name__ == "__main__":
    try:
        main()
    except SystemExit:
        raise
    except BaseException:
        traceback.print_exc()
        sys.exit(3)
