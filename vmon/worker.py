"""Shard worker: python -m vmon.worker <PROP> <desc.json> <out.json> <workdir>"""
import json
import os
import sys
import traceback


def main():
    prop, dfile, ofile, workdir = sys.argv[1:5]
    with open(dfile) as f:
        desc = json.load(f)
    from vmon import common, reach
    reach.start()
    mod = common.load_prop(prop)
    ctx = common.Ctx(prop, desc, workdir)
    if "replay" in desc:
        mod.replay(desc["replay"], ctx)
    else:
        mod.run_shard(desc, ctx)
    res = ctx.result()
    res["reached"] = reach.stop()
    for name in getattr(mod, "ANCHOR_FUNCS", []):
        if any(r.endswith(name) for r in res["reached"]):
            res["counters"]["reached:" + name] = res["counters"].get("reached:" + name, 0) + 1
    res.pop("reached")
    with open(ofile + ".tmp", "w") as f:
        json.dump(res, f)
    os.replace(ofile + ".tmp", ofile)


if __name__ == "__main__":
    try:
        main()
    except SystemExit:
        raise
    except BaseException:
        traceback.print_exc()
        sys.exit(3)
