"""C18 Query results are independent of query history and repeatable."""
import hashlib
import itertools
import os
import random
import subprocess

from vmon import common, gen, refmodel, runner, vutil

RULE = ("sequential specification = the same request on a freshly built dataset. EXHAUSTIVE: every sequence of length 1-3 "
        "over a menu of 16 requests (single/multi field, All/No/time/leadtime/location/month axes, inputs 0/1) = 4368 "
        "histories per dataset, on datasets with partially missing data incl. obs-range and climatology variants; random "
        "histories of length 4-30 incl. repeated requests. After every call: (1) the result equals the fresh-dataset "
        "result, (2) every array handed out earlier still has its original content (ledger of snapshots vs live "
        "references), (3) the SHA-1 of every input object's arrays is unchanged. Repeatability: the same command in two "
        "OS processes with different PYTHONHASHSEED must print identical bytes. signature = (request-index sequence, "
        "dataset kind); non-trivial = the sequence contains a whole-array or multi-field request before a narrower one.")
EXHAUSTIVE = "all request sequences up to length 3 over the 16-request menu"
RULE += " " + 'Dataset kind nccdf: NetCDF inputs with stored cdf/quantiles and per-variable fill values.'
RULE += " " + "Rounds 9-10: histories contain diagrams drawn from the same Data object (fss, droc, reliability, discrimination, timeseries); the Data object's times, lead times and locations are compared after every history."
RULE += " " + 'Rounds 11-12: kind thin (exactly one dimension with more than one entry); axes of one dimension with coinciding slice values (leadtime / leadtimeday, time / day / year).'
RULE += " " + 'Rounds 13-14: what a diagram draws (curve, bar and point coordinates) is its answer and is compared with the same diagram on a fresh dataset; nccdf histories contain igncontrib / roc / marginal / economicvalue with the below, below=, above and above= event types on forecasts with probabilities of exactly 0 and 1.'
ASSUMPTIONS = ["the caller does not write into returned arrays"]
REQUIRED_COUNTERS = ["histories", "calls_checked", "ledger_checks", "input_hash_checks", "repeat_pairs"]
ANCHOR_FUNCS = ["Data.get_scores", "Data._get_score"]
TIMEOUT = {"quick": 1500, "thorough": 7200}

KINDS = ["plain", "obsrange", "clim", "pit", "ens", "nccdf", "thin"]


def plan(tier, seed):
    shards = []
    for kind in KINDS:
        for part in range(4):
            shards.append({"part": "exhaustive", "kind": kind, "seed": seed, "slice": part, "of": 4,
                           "maxlen": 3 if (tier == "thorough" or kind == "plain") else 2})
    shards += [{"part": "random", "seed": seed, "k": k, "n": 30 if tier == "quick" else 600} for k in range(4)]
    shards += [{"part": "repeat", "seed": seed, "k": k, "n": 3 if tier == "quick" else 12} for k in range(4)]
    return shards


def thin_axis(ds):
    """the one dimension of a 'thin' dataset that has more than one entry"""
    i0 = ds["inputs"][0]
    return "time" if len(i0["times"]) > 1 else ("leadtime" if len(i0["leadtimes"]) > 1 else "location")


def menu(kind, ds=None):
    if kind == "thin":
        # a single station and lead time (or a single run at one lead time over a network, ...): the data block is a vector
        ax = thin_axis(ds)
        return [(["obs", "fcst"], 0, "all", None), (["obs"], 0, "all", None), (["fcst"], 0, "all", None),
                (["obs", "fcst"], 0, "no", 0), (["obs"], 0, "no", 0), (["obs", "fcst"], 1, ax, 0),
                (["obs"], 1, ax, 1), (["obs", "fcst"], 0, ax, 0), (["fcst"], 1, ax, 0),
                (["obs", "fcst"], 1, "all", None), (["fcst"], 1, "no", 0), (["obs"], 0, ax, 1),
                (["fcst"], 0, ax, 1), (["obs"], 1, "all", None), (["obs", "fcst"], 1, ax, 1), (["fcst"], 1, "all", None)]
    m = [(["obs", "fcst"], 0, "all", None), (["obs"], 0, "all", None), (["fcst"], 0, "all", None),
         (["obs", "fcst"], 0, "no", 0), (["obs"], 0, "no", 0), (["obs", "fcst"], 1, "leadtime", 0),
         (["obs"], 1, "leadtime", 1), (["obs", "fcst"], 0, "time", 0), (["fcst"], 1, "location", 0),
         (["obs", "fcst"], 1, "all", None), (["fcst"], 1, "no", 0), (["obs"], 0, "time", 1),
         (["obs", "fcst"], 0, "month", 0), (["obs"], 1, "all", None),
         (["obs", "fcst"], 1, "leadtime", 1), (["obs"], 0, "time", 0)]
    # axes of the same dimension whose slice values can coincide (lead time 0 h / lead-time day 0; a run at 00 UTC / its day / the
    # month or year starting that day) while the slices differ
    m += [(["obs", "fcst"], 0, "leadtimeday", 0), (["obs", "fcst"], 0, "day", 0), (["obs"], 1, "year", 0)]
    if kind == "ens":
        # quantiles and probabilities that the files do not store are derived from the ensemble members
        m[2] = ([("q", 0.5)], 0, "all", None)
        m[4] = ([("ens", 1)], 0, "all", None)
        m[6] = ([("obs",), ("q", 0.5)], 1, "no", 0)
        m[8] = ([("ens", 0)], 1, "leadtime", 0)
        m[10] = ([("thr", 5.0)], 0, "all", None)
        m[11] = ([("ens", 1)], 1, "no", 0)
        m[13] = ([("q", 0.9)], 1, "all", None)
        m[9] = ([("ens", 0)], 0, "all", None)          # differs from m[4] only in the member number
        m[14] = ([("obs",), ("ens", 1)], 1, "leadtime", 0)
        m[15] = ([("obs",), ("ens", 0)], 1, "leadtime", 0)
        m[12] = ("diagram", "timeseries", None, None)
    if kind == "plain":
        m[13] = ("diagram", "fss", None, None)
        m[6] = ("diagram", "droc", None, None)
        m[12] = ("diagram", "timeseries", None, None)
    if kind == "nccdf":
        m[14] = ("diagram", "reliability", None, None)
        m[15] = ("diagram", "discrimination", None, None)
    if kind == "nccdf":
        # NetCDF files with stored probabilities / quantiles and per-variable fill values: every variable is read on demand
        m[2] = ([("thr", 5.0)], 0, "all", None)
        m[4] = ([("obs",), ("thr", 5.0)], 1, "no", 0)
        m[6] = ([("q", 0.5)], 0, "all", None)
        m[10] = ([("thr", 10.0)], 1, "all", None)
        m[11] = ([("thr", 5.0)], 1, "leadtime", 0)
        m[13] = ([("obs",), ("q", 0.9)], 1, "all", None)
    if kind == "nccdf":
        # consumers that turn the cached probabilities into event probabilities of other event types (and may clip, flip or
        # sort them while doing so)
        m += [("diagram", "igncontrib", "below", None), ("diagram", "roc", "below=", None), ("diagram", "marginal", "above", None),
              ("diagram", "igncontrib", None, None), ("diagram", "economicvalue", "above=", None)]
    if kind == "pit":
        m[11] = (["pit"], 0, "all", None)
        m[12] = (["obs", "pit"], 1, "no", 0)
        m[4] = (["pit"], 1, "leadtime", 0)
    return m


def make_ds(rng, kind):
    if kind == "thin":
        long_dim = rng.choice(["time", "leadtime", "location"])
        for _ in range(50):
            ds = gen.make_dataset(rng, n_inputs=2, fmt=rng.choice(["text", "nc"]), miss=0.25, sparse=0.0, max_t=6, max_l=5, max_s=5, same_dims=True)
            i0 = ds["inputs"][0]
            if len(i0["times"]) >= 3 and len(i0["leadtimes"]) >= 3 and len(i0["locs"]) >= 3:
                break
        t0, l0, s0 = i0["times"][0], i0["leadtimes"][0], i0["locs"][0]
        for inp in ds["inputs"]:
            if long_dim != "time":
                inp["times"] = [t0]
            if long_dim != "leadtime":
                inp["leadtimes"] = [l0]
            if long_dim != "location":
                inp["locs"] = [s0]
            keep = set(gen.ck(t, l, s[0]) for t in inp["times"] for l in inp["leadtimes"] for s in inp["locs"])
            inp["cells"] = {k: c for k, c in inp["cells"].items() if k in keep}
        return ds
    if kind == "nccdf":
        from vmon.props import c02
        ds = gen.make_dataset(rng, n_inputs=2, fmt="nc", prob=True, miss=0.2, sparse=0.0, max_t=3, max_l=3, max_s=2, same_dims=False,
                              thresholds=[5.0, 10.0], quantiles=[0.5, 0.9])
        for inp in ds["inputs"]:
            st = c02.shuffled_nc_style(rng, inp, identity=True)
            st["enc"] = ["customfill", "mvattr", "fill"]
            inp["style"] = st
            # certain forecasts: probabilities of exactly 0 and 1 at every threshold of some cases
            for c_ in inp["cells"].values():
                if c_.get("p") is not None and rng.random() < 0.3:
                    j = rng.randint(0, len(c_["p"]))
                    c_["p"] = [0.0 if i_ < j else 1.0 for i_ in range(len(c_["p"]))]
        return ds
    ds = gen.make_dataset(rng, n_inputs=2, fmt="text", clim=(kind == "clim"), pit=(kind == "pit"), miss=0.2 if kind != "ens" else 0.05,
                          sparse=0.1, max_t=3, max_l=3, max_s=2, same_dims=False, ens=(kind == "ens"), members=3)
    # the first lead time is 0 h (analysis time): slice 0 of the lead-time axis and slice 0 of the lead-time-day axis then carry
    # the same axis value while covering different lead times
    lmin = min(l for i in refmodel.all_inputs(ds) for l in i["leadtimes"])
    if lmin != 0:
        for i in refmodel.all_inputs(ds):
            if lmin in i["leadtimes"]:
                gen.rename_leadtime(i, lmin, 0)
    # at least two times and two lead times in common so that every menu entry exists
    return ds


def request(data, req):
    import verif.axis
    fields, k, axis, idx = req
    if fields == "diagram":
        # a consumer inside verif: a diagram drawn from this Data object; it must leave the dataset as it found it, and what it
        # draws is compared like any other answer
        import numpy as np
        import matplotlib.pyplot as mpl
        import verif.output
        pl = verif.output.get(k)
        pl.thresholds = np.array([5.0])
        pl.filename = None
        if axis is not None:
            pl.bin_type = axis          # (third slot of a diagram entry: the -b event type; default otherwise)
        try:
            pl.plot(data)
        except SystemExit:
            mpl.close("all")
            return [np.zeros(1)]
        # what was drawn (curves, bars, point clouds) is the diagram's answer: like any other request it must not depend on what
        # was asked of this Data object before
        drawn = []
        for fig in [mpl.figure(n) for n in mpl.get_fignums()]:
            for ax in fig.axes:
                for ln in ax.lines:
                    drawn.append(np.asarray(ln.get_xydata(), float).flatten())
                for pa in ax.patches:
                    if hasattr(pa, "get_height"):
                        drawn.append(np.array([pa.get_x(), pa.get_width(), pa.get_height()], float))
                for co in ax.collections:
                    if hasattr(co, "get_offsets"):
                        drawn.append(np.asarray(np.ma.filled(co.get_offsets(), np.nan), float).flatten())
        mpl.close("all")
        return drawn if drawn else [np.zeros(1)]
    vf = [vutil.vfield(tuple(f) if isinstance(f, (tuple, list)) else (f,)) for f in fields]
    arg = vf if len(vf) > 1 else vf[0]
    if axis == "all":
        res = data.get_scores(arg, k)
    else:
        res = data.get_scores(arg, k, vutil.vaxis(axis), idx)
    return res if isinstance(res, list) else [res]


def snap(res):
    import numpy as np
    return [np.array(r, float, copy=True) for r in res]


def same(a, b):
    import numpy as np
    if len(a) != len(b):
        return False
    for x, y in zip(a, b):
        x = np.asarray(x, float)
        y = np.asarray(y, float)
        if x.shape != y.shape or not np.array_equal(np.isnan(x), np.isnan(y)) or not np.array_equal(np.nan_to_num(x), np.nan_to_num(y)):
            return False
    return True


def input_hash(inputs):
    import numpy as np
    h = hashlib.sha1()
    for i in inputs:
        for name in ("obs", "fcst", "pit", "ensemble", "threshold_scores", "quantile_scores", "times", "leadtimes"):
            a = getattr(i, name, None)
            if a is not None:
                h.update(np.ascontiguousarray(np.asarray(a, float)).tobytes())
    return h.hexdigest()


def coords(data):
    """the dataset's own coordinates as the Data object reports them"""
    import numpy as np
    return [np.array(data.times, float), np.array(data.leadtimes, float),
            np.array([[l.id, l.lat, l.lon, l.elev] for l in data.locations], float)]


def setup(ctx, rng, kind, tag):
    import verif.input
    ds = make_ds(rng, kind)
    for _ in range(20):
        t, l, s = refmodel.common_dims(ds)
        if (len(t) >= 2 and len(l) >= 2) or (kind == "thin" and max(len(t), len(l), len(s)) >= 2):
            break
        ds = make_ds(rng, kind)
    d = os.path.join(ctx.workdir, tag)
    os.makedirs(d, exist_ok=True)
    paths, cpath = gen.materialize(ds, d, None)
    opts = {}
    if kind == "obsrange":
        ov = sorted(c["obs"] for i in ds["inputs"] for c in i["cells"].values() if c.get("obs") is not None)
        opts["obsrange"] = [ov[len(ov) // 4], ov[3 * len(ov) // 4]]

    import verif.data

    def fresh():
        inputs = [verif.input.get_input(p) for p in paths]
        clim = verif.input.get_input(cpath) if cpath else None
        return inputs + ([clim] if clim else []), verif.data.Data(inputs, clim=clim, obs_range=opts.get("obsrange"))
    return ds, fresh, opts


def run_history(ctx, fresh, spec, seq, men, kind, ds, shared=None):
    """Execute one history on a fresh Data; returns False on first violation."""
    import verif.data
    if shared is None:
        inputs, data = fresh()
    else:
        inputs = shared
        data = verif.data.Data(inputs[:2], clim=(inputs[2] if len(inputs) > 2 else None), obs_range=spec["opts"].get("obsrange"))
    h0 = input_hash(inputs)
    c0 = coords(data)
    ledger = []
    ctx.count("histories")
    for pos, ri in enumerate(seq):
        res = request(data, men[ri])
        ctx.count("calls_checked")
        if not same(res, spec["expected"][ri]):
            prev = [men[j] for j in seq[:pos]]
            ctx.violation("history-dependent-result|%s" % ("after-whole-array" if any(p[2] == "all" for p in prev) else "other"),
                          "request %s after history %s returns something else than on a fresh dataset (kind %s)\nfresh: %s\ngot:   %s"
                          % (men[ri], prev, kind, [x.tolist() for x in spec["expected"][ri]][:2], [vutil_list(x) for x in res][:2]),
                          {"ds": ds, "kind": kind, "seq": list(seq), "opts": spec["opts"]})
            return False
        for (rj, live, copy) in ledger:
            ctx.count("ledger_checks")
            if not same(live, copy):
                ctx.violation("returned-array-modified-later", "the arrays returned for request %s were changed by the later request %s (kind %s)"
                              % (men[rj], men[ri], kind), {"ds": ds, "kind": kind, "seq": list(seq), "opts": spec["opts"]})
                return False
        ledger.append((ri, res, snap(res)))
    ctx.count("coordinate_checks")
    if not same(coords(data), c0):
        ctx.violation("dataset-coordinates-modified|%s" % kind, "times / lead times / locations of the Data object changed during history %s:\nbefore %s\nafter  %s"
                      % ([men[j] for j in seq], [x.tolist() for x in c0][:2], [x.tolist() for x in coords(data)][:2]),
                      {"ds": ds, "kind": kind, "seq": list(seq), "opts": spec["opts"]})
        return False
    ctx.count("input_hash_checks")
    if input_hash(inputs) != h0:
        ctx.violation("input-object-modified|%s" % kind, "the input objects' arrays changed during history %s" % [men[j] for j in seq],
                      {"ds": ds, "kind": kind, "seq": list(seq), "opts": spec["opts"]})
        return False
    return True


def vutil_list(x):
    import numpy as np
    return np.asarray(x, float).tolist()


def expected_table(fresh, men):
    exp = {}
    for ri, req in enumerate(men):
        inputs, data = fresh()
        exp[ri] = snap(request(data, req))
    return exp


def nontrivial(seq, men):
    for i, a in enumerate(seq):
        for b in seq[i + 1:]:
            if (men[a][2] == "all" or len(men[a][0]) > 1) and (men[b][2] != "all" or len(men[b][0]) < len(men[a][0]) or men[a][0] != men[b][0]):
                return True
    return False


def run_exhaustive(desc, ctx):
    kind = desc["kind"]
    rng = random.Random("C18-%s-%s" % (desc["seed"], kind))
    ds, fresh, opts = setup(ctx, rng, kind, "ex")
    men = menu(kind, ds)
    spec = {"expected": expected_table(fresh, men), "opts": opts}
    shared, _ = fresh()
    n = 0
    bad = 0
    for L in range(1, desc["maxlen"] + 1):
        for seq in itertools.product(range(len(men)), repeat=L):
            n += 1
            if n % desc["of"] != desc["slice"]:
                continue
            ok = run_history(ctx, fresh, spec, seq, men, kind, ds, shared=shared)
            ctx.case("%s|%s" % (kind, "-".join(map(str, seq))), nontrivial(seq, men),
                     {"kind": kind, "history": [list(map(str, men[j])) for j in seq]})
            if not ok:
                bad += 1
                shared, _ = fresh()
                if bad > 6:
                    return


def run_random(desc, ctx):
    rng = random.Random("C18-r-%s-%s" % (desc["seed"], desc["k"]))
    for ci in range(desc["n"]):
        kind = rng.choice(KINDS)
        if ci % 10 == 0:
            ds, fresh, opts = setup(ctx, rng, kind, "r%d" % ci)
            men = menu(kind, ds)
            spec = {"expected": expected_table(fresh, men), "opts": opts}
            cur_kind = kind
        kind = cur_kind
        L = rng.randint(4, 30)
        seq = tuple(rng.randrange(len(men)) for _ in range(L))
        run_history(ctx, fresh, spec, seq, men, kind, ds)
        ctx.case("%s|random-len%d" % (kind, L // 5 * 5), nontrivial(seq, men))


REPEAT_CMDS = [["-m", "mae", "-x", "location", "-type", "csv"], ["-m", "corr", "-x", "leadtime", "-type", "text"],
               ["-m", "ets", "-r", "5", "-type", "csv"], ["-m", "obs", "-x", "lat", "-agg", "median", "-type", "csv"],
               ["-m", "rmse", "-x", "week", "-type", "csv"], ["--list-locations"], ["-m", "bs", "-r", "5", "-x", "no", "-type", "csv"],
               ["-m", "pithistdev", "-x", "time", "-type", "csv"], ["-m", "quantilescore", "-q", "0.5", "-x", "elev", "-type", "csv"]]


def run_repeat(desc, ctx):
    rng = random.Random("C18-p-%s-%s" % (desc["seed"], desc["k"]))
    d = os.path.join(ctx.workdir, "rep")
    os.makedirs(d, exist_ok=True)
    ds = gen.make_dataset(rng, n_inputs=2, prob=True, pit=True, miss=0.1, thresholds=[0.0, 5.0, 10.0], quantiles=[0.1, 0.5, 0.9])
    paths, _ = gen.materialize(ds, d, rng)
    env = common.worker_env()
    for _ in range(desc["n"]):
        cmd = rng.choice(REPEAT_CMDS)
        outs = []
        for hs in ("1", "987654"):
            e = dict(env, PYTHONHASHSEED=hs)
            r = subprocess.run(["/venv/bin/verif"] + paths + cmd, stdout=subprocess.PIPE, stderr=subprocess.PIPE, env=e, timeout=300)
            outs.append((r.returncode, r.stdout))
        ctx.count("repeat_pairs")
        ctx.case("repeat|%s" % " ".join(cmd), True, {"argv": cmd})
        if outs[0] != outs[1]:
            ctx.violation("not-repeatable|%s" % cmd[1], "verif <files> %s printed different bytes in two processes (PYTHONHASHSEED 1 vs 987654)\n%s\n---\n%s"
                          % (" ".join(cmd), outs[0][1][-400:], outs[1][1][-400:]), {"ds": ds, "argv": cmd})
    # PIT randomisation at a discrete mass (x0/x1 set): in-process, input objects must stay unmodified
    import verif.data
    import verif.input
    import verif.field
    for x0, x1 in ((0.0, None), (None, 100.0), (0.0, 100.0)):
        dsx = gen.make_dataset(rng, n_inputs=1, pit=True, miss=0.1, integerish=True, vrange=(0, 3), fmt="text")
        dsx["inputs"][0]["variable"] = {"name": "Precip", "units": "mm", "x0": x0, "x1": x1}
        for c in dsx["inputs"][0]["cells"].values():
            if c.get("obs") is not None and rng.random() < 0.4:
                c["obs"] = 0.0 if x0 is not None else 100.0
        dx = os.path.join(d, "pit%s%s" % (x0, x1))
        os.makedirs(dx)
        px, _ = gen.materialize(dsx, dx, None)
        inputs = [verif.input.get_input(px[0])]
        h0 = input_hash(inputs)
        data = verif.data.Data(inputs)
        data.get_scores(verif.field.Pit(), 0)
        ctx.count("input_hash_checks")
        ctx.case("pit-randomise|x0=%s|x1=%s" % (x0, x1), True)
        if input_hash(inputs) != h0:
            ctx.violation("input-object-modified|pit-randomisation", "requesting PIT values with x0=%s x1=%s multiplied input.pit in place"
                          % (x0, x1), {"ds": dsx})
        outs = []
        for hs in ("1", "2"):
            r = subprocess.run(["/venv/bin/verif"] + px + ["-m", "pit", "-x", "no", "-type", "csv"], stdout=subprocess.PIPE,
                               stderr=subprocess.PIPE, env=dict(env, PYTHONHASHSEED=hs), timeout=300)
            outs.append(r.stdout)
        ctx.count("repeat_pairs")
        if outs[0] != outs[1]:
            ctx.violation("not-repeatable|pit-randomisation", "-m pit with a discrete mass (x0=%s x1=%s) differs between two runs:\n%s\n%s"
                          % (x0, x1, outs[0][-200:], outs[1][-200:]), {"ds": dsx})


def run_shard(desc, ctx):
    {"exhaustive": run_exhaustive, "random": run_random, "repeat": run_repeat}[desc["part"]](desc, ctx)


def replay(case, ctx):
    if case and "seq" in case:
        kind = case["kind"]
        ds = case["ds"]
        import vmon.props.c18 as me
        orig = me.make_ds
        try:
            me.make_ds = lambda rng, k: ds
            for i in refmodel.all_inputs(ds):
                i["style"] = {}
            ds2, fresh, opts = setup(ctx, random.Random(0), kind, "rp")
            men = menu(kind, ds)
            spec = {"expected": expected_table(fresh, men), "opts": opts}
            run_history(ctx, fresh, spec, tuple(case["seq"]), men, kind, ds)
            ctx.case("replay", True)
        finally:
            me.make_ds = orig
    else:
        run_repeat({"seed": 0, "k": 0, "n": 2}, ctx)
