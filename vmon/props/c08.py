"""C08 Probabilistic scores follow their definitions; event probability from the CDF."""
import os
import random

from vmon import attach, gen, refmetrics, refmodel, runner, vutil

RULE = ("generated text/NetCDF inputs with cumulative probabilities (values 0, 1, 0.1..0.9, dyadic, random; constant "
        "observations; observations equal to thresholds), quantile columns, PIT values and ensembles of 1-9 members with "
        "missing members; thresholds stored in all / some / none of the inputs (then taken from the ensemble). Checked "
        "through Metric.compute on real Data objects (axes no/leadtime/time/location) and csv: the event probability "
        "(P(X<=upper) - P(X<=lower), 1/0 at infinite ends, or fraction of present members <= threshold), bs, bsrel, bsres, "
        "bsunc, bss, bssrel, bssres, ign0, spherical, marginalratio, threshold, quantilescore, quantilecoverage (per bin "
        "type), quantile, spread, spreadskillratio, pit, pithistdev/slope/shape against textbook formulas; BS = REL - RES + "
        "UNC when each probability bin holds a single forecast value; BS(event) = BS(complement); ensemble quantiles within "
        "the ensemble range, non-decreasing in the level, equal to the member for M = 1. signature = (metric, bin type, "
        "probability source cdf|ensemble|mixed, p-class); non-trivial = p takes >= 2 values incl. 0 or 1, or the threshold "
        "is not stored.")
RULE += " " + 'Ensemble-only text inputs with one-decimal member values not exact in single precision and thresholds equal to members (text values are doubles).'
RULE += " " + 'Rounds 9-10: quantile pairs on the same side of the median.'
ASSUMPTIONS = ["reliability/resolution use 10 equal-width probability bins with floating-point edges i*0.1, top edge inclusive",
               "no interpolation rule is demanded for quantiles taken from an ensemble (range, monotonicity, M=1 only)"]
REQUIRED_COUNTERS = ["score_checks", "identity_checks", "complement_checks", "ensemble_prob_checks", "ensemble_quantile_checks",
                     "csv_values", "pit_checks"]
ANCHOR_FUNCS = ["metric.get_p", "Data._get_score", "BsRel.compute_from_obs_fcst"]

NAN = float("nan")
BINS1 = ["above", "above=", "below", "below="]
BINS2 = ["within", "=within", "within=", "=within="]


def plan(tier, seed):
    n = 10 if tier == "quick" else 140
    return [{"seed": seed, "k": k, "n": n} for k in range(16)]


def event(obs, b, t0, t1=None):
    return 1.0 if attach.in_documented_event(obs, b, t0, t1) else 0.0


def prob(b, p0, p1=None):
    ul, lc, uu, uc = attach.BIN_TABLE[b]
    if ul and uu:
        return p1 - p0
    if uu:
        return p0
    return 1.0 - p0


def tweak_probabilities(rng, ds, pclass):
    for inp in refmodel.all_inputs(ds):
        nt = len(inp["thresholds"])
        if not nt:
            continue
        for c in inp["cells"].values():
            if c.get("p") is None:
                continue
            if pclass == "extremes":
                vals = sorted(rng.choice([0.0, 0.0, 1.0, 1.0, 0.5]) for _ in range(nt))
            elif pclass == "edges" and inp["fmt"] == "text":
                vals = sorted(rng.choice([0.0, 0.1, 0.2, 0.3, 0.4, 0.5, 0.6, 0.7, 0.8, 0.9, 1.0]) for _ in range(nt))
            elif pclass == "single-per-bin":
                vals = sorted(rng.choice([0.0, 0.125, 0.25, 0.375, 0.5, 0.625, 0.75, 0.875, 1.0]) for _ in range(nt))
            else:
                vals = sorted(rng.randint(0, 64) / 64.0 for _ in range(nt))
            c["p"] = [None if x is None else v for x, v in zip(c["p"], vals)]


def run_case(ctx, rng, ci):
    import numpy as np
    import verif.metric
    import verif.util
    source = rng.choice(["cdf", "cdf", "ensemble", "mixed"])
    F = rng.choice([1, 2])
    thresholds = sorted(rng.sample([0.0, 2.0, 5.0, 10.0], rng.randint(2, 3)))
    # (levels on the same side of the median occur as pairs too: 0.6-0.9, 0.1-0.3)
    quantiles = sorted(rng.sample([0.0, 0.1, 0.25, 0.3, 0.5, 0.6, 0.75, 0.9, 1.0], rng.randint(2, 3)))
    pclass = rng.choice(["random", "extremes", "edges", "single-per-bin"])
    ens = source != "cdf" or rng.random() < 0.3
    # one-decimal member values that are not exact in single precision, thresholds equal to members: text values are
    # doubles, so "member <= threshold" must be decided on the numbers written in the file
    decimal = source == "ensemble" and rng.random() < 0.4
    if decimal:
        pclass = "random"
    ds = gen.make_dataset(rng, n_inputs=F, prob=True, pit=True, ens=ens, members=rng.randint(1, 9), miss=rng.choice([0.0, 0.1, 0.2]),
                          sparse=0.0, thresholds=thresholds, quantiles=quantiles, max_t=5, max_l=4, max_s=3,
                          vrange=(0, 12), integerish=rng.random() < 0.5, fmt=("text" if (pclass == "edges" or decimal) else None))
    tweak_probabilities(rng, ds, pclass)
    DEC = [0.1, 0.3, 0.7, 0.9, 1.1, 2.7, 3.3, 0.5]
    if decimal:
        ctx.count("decimal_member_cases")
        for inp in ds["inputs"]:
            for c in inp["cells"].values():
                if c.get("e"):
                    c["e"] = [None if x is None else rng.choice(DEC) for x in c["e"]]
    if rng.random() < 0.15:          # constant observations
        for inp in ds["inputs"]:
            for c in inp["cells"].values():
                if c.get("obs") is not None:
                    c["obs"] = 5.0
    if source == "ensemble":
        for inp in ds["inputs"]:
            inp["thresholds"] = []
            inp["quantiles"] = []
            for c in inp["cells"].values():
                c.pop("p", None)
                c.pop("q", None)
    elif source == "mixed" and F == 2:
        inp = ds["inputs"][1]
        inp["thresholds"] = []
        for c in inp["cells"].values():
            c.pop("p", None)
    d = os.path.join(ctx.workdir, "c%d" % ci)
    os.makedirs(d, exist_ok=True)
    paths, _ = gen.materialize(ds, d, None)
    case = {"ds": ds, "source": source}
    tol = 1e-5 if source != "cdf" else 1e-9

    def check(metric, got, want, what, key=None):
        ctx.count("score_checks")
        if got is np.ma.masked:
            got = NAN
        got = float(got)
        if want != want:
            if not (got != got or got in (float("inf"), float("-inf"))):
                ctx.violation("undefined-gives-number|%s" % metric, "%s = %r although undefined" % (what, got), case)
            return
        if not vutil.num_equal(got, want, tol, 1e-9 if source == "cdf" else 2e-6):
            ctx.violation("definition|%s%s" % (metric, "|" + key if key else ""), "%s = %r, definition gives %r" % (what, got, want), case)

    data = vutil.build_data(paths)
    for rep in range(10):
        axis = rng.choice(["no", "no", "leadtime", "time", "location"])
        two = rng.random() < 0.35 and len(thresholds) >= 2
        b = rng.choice(BINS2 if two else BINS1)
        stored = rng.random() < 0.8 or source == "cdf"
        if stored:
            ts = sorted(rng.sample(thresholds, 2)) if two else [rng.choice(thresholds)]
        else:
            ts = [3.5, 7.25] if two else [rng.choice([3.5, 7.25, 1.0])]
        if source == "cdf" and not stored:
            continue
        if decimal:
            ts = sorted(rng.sample(DEC, 2)) if two else [rng.choice(DEC)]
        t0, t1 = ts[0], (ts[1] if two else None)
        fields = [("obs",), ("thr", t0)] + ([("thr", t1)] if two else [])
        iv = verif.util.get_intervals(b, np.array(ts))[0]
        vax = vutil.vaxis(axis)
        for k in range(F):
            try:
                sl = refmodel.slices(ds, k, fields, axis)
            except KeyError:
                continue
            mets = {"bs": refmetrics.brier, "bsunc": refmetrics.brier_unc, "bsrel": refmetrics.brier_rel, "bsres": refmetrics.brier_res,
                    "bss": refmetrics.brier_ss, "bssrel": refmetrics.brier_ss_rel, "bssres": refmetrics.brier_ss_res,
                    "ign0": refmetrics.ignorance, "spherical": refmetrics.spherical, "marginalratio": refmetrics.marginal_ratio}
            got = {}
            for name in mets:
                try:
                    got[name] = verif.metric.get(name).compute(data, k, vax, iv)
                except SystemExit:
                    got = None
                    break
                except Exception as e:
                    ctx.violation("exception|%s|%s" % (name, type(e).__name__), "%s raised %r (bin %s thresholds %s)" % (name, e, b, ts), case)
                    got = None
                    break
            if got is None:
                continue
            for i, (lab, cases) in enumerate(sl):
                o = [event(c[0], b, t0, t1) for c in cases]
                p = [prob(b, c[1], c[2] if two else None) for c in cases]
                pvals = set(round(x, 6) for x in p)
                src = "cdf" if (stored and not (source == "mixed" and k == 1) and source != "ensemble") else "ensemble"
                if src == "ensemble":
                    ctx.count("ensemble_prob_checks", len(p))
                ctx.case("%s|%s|%s|%s" % ("brier-family", b, src, pclass), (len(pvals) >= 2 and (0.0 in pvals or 1.0 in pvals)) or src == "ensemble",
                         {"bin": b, "thresholds": ts, "axis": axis, "source": src, "n": len(p), "p_values": sorted(pvals)[:8]})
                if not cases:
                    for name in mets:
                        g = float(np.ma.filled(got[name], np.nan)[i])
                        ctx.count("score_checks")
                        if g == g and name != "bsunc__":
                            ctx.violation("number-from-no-case|%s" % name, "%s of a slice without valid cases = %r" % (name, g), case)
                    continue
                # ensemble-derived probabilities are float32 in verif
                for name, fn in mets.items():
                    want = fn(o, p)
                    g = np.ma.filled(got[name], np.nan)[i]
                    near_edge = src == "ensemble" and name in ("bsrel", "bsres", "bssrel", "bssres") and \
                        any(abs(x * 10 - round(x * 10)) < 1e-6 for x in p)
                    if near_edge:
                        continue
                    if name in ("ign0", "spherical") and want != want and any(x in (0.0, 1.0) for x in p):
                        ctx.count("score_checks")
                        continue
                    check(name, g, want, "%s (bin %s, thresholds %s, axis %s slice %d, input %d, %s probabilities)" % (name, b, ts, axis, i, k, src))
                # BS = REL - RES + UNC when every bin holds a single forecast value
                bins = {}
                for x in p:
                    bins.setdefault(refmetrics._bins10(x), set()).add(round(x, 9))
                edge_amb = src == "ensemble" and any(abs(x * 10 - round(x * 10)) < 1e-6 for x in p)   # float32 p on a bin edge
                if all(len(v) == 1 for v in bins.values()) and None not in bins and not edge_amb:
                    ctx.count("identity_checks")
                    g = [float(np.ma.filled(got[n], np.nan)[i]) for n in ("bs", "bsrel", "bsres", "bsunc")]
                    if all(x == x for x in g) and abs(g[0] - (g[1] - g[2] + g[3])) > 1e-6:
                        ctx.violation("brier-decomposition", "BS %r != REL %r - RES %r + UNC %r with one forecast value per bin (p values %s)"
                                      % (g[0], g[1], g[2], g[3], sorted(pvals)), case)
            # complement event
            comp = {"above": "below=", "below=": "above", "below": "above=", "above=": "below"}.get(b)
            if comp and not two:
                iv2 = verif.util.get_intervals(comp, np.array(ts))[0]
                g1 = np.ma.filled(verif.metric.get("bs").compute(data, k, vax, iv), np.nan)
                g2 = np.ma.filled(verif.metric.get("bs").compute(data, k, vax, iv2), np.nan)
                ctx.count("complement_checks")
                if not all(vutil.num_equal(float(x), float(y), 1e-6, 1e-9) for x, y in zip(g1, g2)):
                    ctx.violation("brier-complement", "BS(%s %s) = %s but BS(%s %s) = %s" % (b, ts, list(g1), comp, ts, list(g2)), case)
        # csv for one metric
        name = rng.choice(["bs", "bss", "bsrel", "ign0", "marginalratio", "bsunc"])
        argv = ["-m", name, "-r", ",".join(gen.fnum(t) for t in ts), "-b", b, "-x", axis, "-type", "csv"]
        o_ = runner.run_cli(paths + argv)
        if o_.status == "crash":
            ctx.violation("crash|%s@%s" % (o_.exc_type, o_.where), "verif <files> %s\n%s" % (" ".join(argv), o_.tb), case)
        elif o_.status == "ok":
            h, rows = runner.parse_csv(o_.stdout)
            nd = len(h) - F
            fn = {"bs": refmetrics.brier, "bss": refmetrics.brier_ss, "bsrel": refmetrics.brier_rel, "ign0": refmetrics.ignorance,
                  "marginalratio": refmetrics.marginal_ratio, "bsunc": refmetrics.brier_unc}[name]
            for k in range(F):
                try:
                    sl = refmodel.slices(ds, k, fields, axis)
                except KeyError:
                    break
                for i, (lab, cases) in enumerate(sl):
                    if i >= len(rows) or not cases:
                        continue
                    o = [event(c[0], b, t0, t1) for c in cases]
                    p = [prob(b, c[1], c[2] if two else None) for c in cases]
                    want = fn(o, p)
                    ctx.count("csv_values")
                    txt = rows[i][nd + k]
                    if want != want:
                        continue
                    if name == "bsrel" and source != "cdf":
                        continue
                    if not (vutil.close_text_number(txt, want, 6) or vutil.num_equal(float(txt), want, 2e-5, 1e-9 if source == "cdf" else 2e-6)):
                        ctx.violation("csv-definition|%s" % name, "verif <files> %s row %d col %d: %s, definition %r" % (" ".join(argv), i, k, txt, want), case)
    # quantile metrics
    qsrc = "ensemble" if source == "ensemble" else "cdf"
    for rep in range(4):
        axis = rng.choice(["no", "leadtime", "location"])
        vax = vutil.vaxis(axis)
        qs = quantiles if qsrc == "cdf" else [0.0, 0.25, 0.5, 0.75, 1.0]
        lo, hi = sorted(rng.sample(qs, 2))
        for k in range(F):
            if qsrc == "cdf":
                # pinball
                tau = rng.choice(qs)
                iv = verif.util.get_intervals("above", np.array([tau]))[0]
                sl = refmodel.slices(ds, k, [("obs",), ("q", tau)], axis)
                got = verif.metric.get("quantilescore").compute(data, k, vax, iv)
                gm = verif.metric.get("quantile").compute(data, k, vax, iv)
                slq = refmodel.slices(ds, k, [("q", tau)], axis)
                for i, (lab, cases) in enumerate(sl):
                    ctx.case("quantilescore|above|cdf|q%s" % tau, len(cases) >= 2)
                    if cases:
                        check("quantilescore", got[i], refmetrics.pinball([c[0] for c in cases], [c[1] for c in cases], tau),
                              "quantilescore(q=%s) axis %s slice %d input %d" % (tau, axis, i, k))
                    if slq[i][1]:
                        check("quantile", gm[i], refmetrics.mean([c[0] for c in slq[i][1]]), "mean quantile forecast q=%s slice %d" % (tau, i))
                # coverage per bin type, spread, spread-skill ratio
                b = rng.choice(BINS2)
                iv = verif.util.get_intervals(b, np.array([lo, hi]))[0]
                sl = refmodel.slices(ds, k, [("obs",), ("q", lo), ("q", hi)], axis)
                got = verif.metric.get("quantilecoverage").compute(data, k, vax, iv)
                ul, lc, uu, uc = attach.BIN_TABLE[b]
                for i, (lab, cases) in enumerate(sl):
                    ctx.case("quantilecoverage|%s|cdf" % b, len(cases) >= 2)
                    if cases:
                        want = refmetrics.mean(1.0 if ((c[1] < c[0] or (lc and c[1] == c[0])) and (c[2] > c[0] or (uc and c[2] == c[0]))) else 0.0
                                               for c in cases)
                        check("quantilecoverage", got[i], want, "coverage of [%s,%s] bin %s slice %d" % (lo, hi, b, i))
                ivw = verif.util.get_intervals("within", np.array([lo, hi]))[0]
                sl2 = refmodel.slices(ds, k, [("q", lo), ("q", hi)], axis)
                gs = verif.metric.get("spread").compute(data, k, vax, ivw)
                for i, (lab, cases) in enumerate(sl2):
                    ctx.case("spread|within|cdf", len(cases) >= 2)
                    if cases:
                        check("spread", gs[i], refmetrics.mean(c[1] - c[0] for c in cases), "spread %s-%s slice %d" % (lo, hi, i))
                if 0.0 < lo and hi < 1.0 and all("fcst" in x["has"] for x in ds["inputs"]):
                    sl3 = refmodel.slices(ds, k, [("q", lo), ("q", hi), ("fcst",), ("obs",)], axis)
                    gr = verif.metric.get("spreadskillratio").compute(data, k, vax, ivw)
                    for i, (lab, cases) in enumerate(sl3):
                        ctx.case("spreadskillratio|within|cdf", len(cases) >= 2)
                        if cases:
                            want = refmetrics.spread_skill_ratio([c[3] for c in cases], [c[2] for c in cases], [c[0] for c in cases],
                                                                 [c[1] for c in cases], lo, hi)
                            check("spreadskillratio", gr[i], want, "spread-skill ratio %s-%s slice %d" % (lo, hi, i))
            else:
                # quantiles from the ensemble: range, monotone in the level, member itself for M = 1
                import verif.field
                M = ds["inputs"][k]["members"]
                prev = None
                for tau in qs:
                    d2 = vutil.build_data(paths)
                    try:
                        arr = np.array(d2.get_scores(verif.field.Quantile(tau), k), float)
                    except SystemExit:
                        break
                    times, leads, locs = refmodel.common_dims(ds)
                    for a, t in enumerate(times):
                        for b_, l in enumerate(leads):
                            for c_, s in enumerate(locs):
                                v = refmodel.case_values(ds, k, [("q", tau)], t, l, s[0])
                                g = float(arr[a, b_, c_])
                                ctx.count("ensemble_quantile_checks")
                                if v is None:
                                    if g == g:
                                        ctx.violation("ensemble-quantile-from-incomplete-ensemble", "quantile %s at (%s,%s,%s) = %r although a member "
                                                      "is missing in some input" % (tau, t, l, s[0], g), case)
                                    continue
                                mem = v[0][1]
                                if not (min(mem) - 1e-9 <= g <= max(mem) + 1e-9):
                                    ctx.violation("ensemble-quantile-outside-range", "quantile %s = %r outside the ensemble %s" % (tau, g, mem), case)
                                if M == 1 and abs(g - mem[0]) > 1e-9:
                                    ctx.violation("ensemble-quantile-single-member", "M=1: quantile %s = %r, member %r" % (tau, g, mem[0]), case)
                    if prev is not None:
                        bad = np.where((arr < prev - 1e-9) & ~np.isnan(arr) & ~np.isnan(prev))
                        if len(bad[0]):
                            ctx.violation("ensemble-quantile-not-monotone", "quantile %s is below the previous level somewhere" % tau, case)
                    prev = arr
                ctx.case("ensemble-quantile|M%d" % M, True)
    if qsrc == "cdf":
        ctx.count("ensemble_quantile_checks", 0)
    if source == "cdf":
        ctx.count("ensemble_prob_checks", 0)
    # PIT statistics
    for k in range(F):
        axis = rng.choice(["no", "leadtime", "time"])
        vax = vutil.vaxis(axis)
        sl = refmodel.slices(ds, k, [("pit",)], axis)
        gd = verif.metric.get("pithistdev").compute(data, k, vax, None)
        gs = verif.metric.get("pithistslope").compute(data, k, vax, None)
        gh = verif.metric.get("pithistshape").compute(data, k, vax, None)
        gm = verif.metric.get("pit").compute(data, k, vax, None)
        for i, (lab, cases) in enumerate(sl):
            pit = [c[0] for c in cases]
            ctx.count("pit_checks")
            ctx.case("pit|%s" % axis, len(pit) >= 2)
            if not pit:
                continue
            check("pit", gm[i], refmetrics.mean(pit), "mean PIT slice %d" % i)
            check("pithistdev", gd[i], refmetrics.pit_dev(pit), "PIT histogram deviation slice %d (%d values)" % (i, len(pit)))
            check("pithistslope", gs[i], refmetrics.pit_slope(pit), "PIT histogram slope slice %d" % i)
            check("pithistshape", gh[i], refmetrics.pit_shape(pit), "PIT histogram shape slice %d" % i)


def run_shard(desc, ctx):
    rng = random.Random("C08-%s-%s" % (desc["seed"], desc["k"]))
    for ci in range(desc["n"]):
        run_case(ctx, rng, ci)


def replay(case, ctx):
    run_shard({"seed": 0, "k": 0, "n": 3}, ctx)
