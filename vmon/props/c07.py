"""C07 Event definitions (-b) are the documented open/closed intervals."""
import itertools
import os
import random

from vmon import ambient, attach, gen, refmodel, runner, vutil

RULE = ("EXHAUSTIVE over: 8 bin types x threshold lists of length 1-3 in increasing/equal/decreasing order x every "
        "order relation a value can have to the thresholds (below, equal, between, equal, above) plus NaN and +-inf, "
        "presented as Python float, NumPy scalar, length-1, 1-d and 2-d arrays, pushed through each entry point "
        "(Interval.within, util.get_intervals, util.apply_threshold, util.apply_threshold_prob, contingency counting "
        "via metric a/b/c/d/n, `-m a|b|c|d|freq|quantilecoverage` and `-hist` through the CLI). The documented table is written once as "
        "data (vmon.attach.BIN_TABLE). Plus record-mode contracts on within/apply_threshold/get_intervals during an "
        "ambient CLI workload. signature = (bin type, threshold-order class, value-relation class, entry point); "
        "non-trivial = the value equals a threshold, is missing or infinite.")
EXHAUSTIVE = "the order-relation space (bin type x threshold order x value relation x entry point) is enumerated completely"
RULE += " " + 'Part fss: complementary events give the same fractions skill score, and the temporal score equals the window reference with the documented event.'
RULE += " " + 'Rounds 9-10: populations of the conditional axes (-m obs|fcst -x obs|fcst -agg count), same-field and cross-field.'
RULE += " " + 'Rounds 11-12: -m within with 0 as lowest threshold on data with exact hits; part window (scripts/window.py under the one-sided bin types with running totals equal to the threshold).'
RULE += " " + 'Rounds 13-14: every ensemble event probability is requested one to three times from the same Data object, in random order.'
ASSUMPTIONS = ["closedness at an infinite end of an interval is immaterial"]
REQUIRED_COUNTERS = ["within_checked", "apply_threshold_checked", "get_intervals_checked", "abcd_checked",
                     "cli_rows_checked", "contract:Interval.within", "partition_checked", "prob_checked"]
ANCHOR_FUNCS = ["Interval.within", "util.apply_threshold", "util.get_intervals"]

BINS = list(attach.BIN_TABLE)
NAN = float("nan")
INF = float("inf")


def plan(tier, seed):
    shards = [{"part": "api", "bins": [b], "seed": seed, "tier": tier} for b in BINS]
    ncli = 2 if tier == "quick" else 6
    shards += [{"part": "cli", "seed": seed, "tier": tier, "k": i} for i in range(ncli)]
    shards += [{"part": "qevents", "seed": seed, "tier": tier, "k": i} for i in range(ncli)]
    shards += [{"part": "ensevents", "seed": seed, "tier": tier, "k": i} for i in range(ncli)]
    shards += [{"part": "fss", "seed": seed, "tier": tier, "k": i} for i in range(2)]
    shards += [{"part": "window", "seed": seed, "tier": tier, "k": i} for i in range(2)]
    shards += [{"part": "ambient", "seed": seed, "tier": tier, "k": i, "n": 150 if tier == "quick" else 1200}
               for i in range(4)]
    return shards


def threshold_lists():
    """(class, thresholds)"""
    out = [("single", [2.0]), ("single-neg", [-1.5]), ("single-zero", [0.0]),
           ("inc2", [1.0, 3.0]), ("eq2", [2.0, 2.0]), ("dec2", [3.0, 1.0]),
           ("inc3", [0.0, 2.0, 5.0]), ("large", [101325.0]), ("large2", [99000.5, 101325.0]), ("inc3-eq", [1.0, 1.0, 4.0]), ("dec3", [5.0, 2.0, 0.0]), ("mixed3", [1.0, 4.0, 2.0])]
    return out


def probe_values(ts):
    """Every order relation to the thresholds, with its class name."""
    u = sorted(set(ts))
    vals = [("below", u[0] - 1.0)]
    for i, t in enumerate(u):
        eps = 4e-6 * max(abs(t), 1.0)          # distinguishable from t, but "close" to it in a tolerant comparison
        vals.append(("just-below", t - eps))
        vals.append(("equal", t))
        vals.append(("just-above", t + eps))
        if i + 1 < len(u):
            vals.append(("between", (t + u[i + 1]) / 2.0))
    vals.append(("above", u[-1] + 1.0))
    vals += [("nan", NAN), ("+inf", INF), ("-inf", -INF)]
    return vals


def expected(bin_type, ts, i, x):
    """Documented membership of x in the i-th event of (bin_type, ts)."""
    ul, lc, uu, uc = attach.BIN_TABLE[bin_type]
    return attach.in_documented_event(x, bin_type, ts[i], ts[i + 1] if (ul and uu) else None)


def n_events(bin_type, ts):
    ul, lc, uu, uc = attach.BIN_TABLE[bin_type]
    return len(ts) - 1 if (ul and uu) else len(ts)


def run_api(desc, ctx):
    import numpy as np
    import verif.interval
    import verif.metric
    import verif.util
    for b in desc["bins"]:
        for tcls, ts in threshold_lists():
            ne = n_events(b, ts)
            ivs = verif.util.get_intervals(b, np.array(ts))
            ctx.count("get_intervals_checked")
            if len(ivs) != ne:
                ctx.violation("get_intervals-count|%s" % b, "get_intervals(%s,%s) -> %d intervals, documented %d"
                              % (b, ts, len(ivs), ne), {"bin": b, "ts": ts})
                continue
            probes = probe_values(ts)
            xs = [v for _, v in probes]
            for i in range(ne):
                iv = ivs[i]
                exp = [expected(b, ts, i, x) for x in xs]
                # --- Interval.within, five presentations
                forms = {
                    "float": [iv.within(x) for x in xs],
                    "npscalar": [iv.within(np.float64(x)) for x in xs],
                    "len1": [iv.within(np.array([x])) for x in xs],
                    "1d": iv.within(np.array(xs)),
                    "2d": iv.within(np.array([xs, xs[::-1]]))[0],
                }
                for form, res in forms.items():
                    if form in ("1d", "2d"):
                        res = np.ma.masked_array(res)
                        vals = np.ma.getdata(res).tolist()
                        mask = np.ma.getmaskarray(res).tolist()
                    else:
                        vals, mask = [], []
                        for r in res:
                            r = np.ma.masked_array(r) if isinstance(r, np.ndarray) else r
                            if isinstance(r, np.ma.MaskedArray):
                                mask.append(bool(np.ma.getmaskarray(r).flatten()[0]))
                                vals.append(bool(np.ma.getdata(r).flatten()[0]))
                            elif isinstance(r, float) and r != r:
                                mask.append(True)
                                vals.append(False)
                            else:
                                mask.append(False)
                                vals.append(bool(r))
                    for (vcls, x), e, rv, mv in zip(probes, exp, vals, mask):
                        ctx.count("within_checked")
                        ok = (e is None and (mv or not rv)) or (e is not None and not mv and bool(rv) == e)
                        ctx.case("%s|%s|%s|within-%s" % (b, tcls, vcls, form), vcls in ("equal", "just-below", "just-above", "nan", "+inf", "-inf"),
                                 {"bin": b, "thresholds": ts, "event": i, "value": x, "form": form, "documented": e})
                        if not ok:
                            infinite_end = vcls in ("+inf", "-inf") and e is True and not mv and not rv
                            ctx.violation(("within-excludes-infinite-value|%s" if infinite_end else "within-truth-table|%s") % b,
                                          "bin %s thresholds %s event %d: within(%r as %s) -> %r masked=%r, documented %r"
                                          % (b, ts, i, x, form, rv, mv, e), {"bin": b, "ts": ts, "i": i, "x": x})
                # --- apply_threshold
                ul, lc, uu, uc = attach.BIN_TABLE[b]
                upper = ts[i + 1] if (ul and uu) else None
                for form in ("1d", "2d"):
                    arr = np.array(xs) if form == "1d" else np.array([xs, xs])
                    keep = arr.copy()
                    res = verif.util.apply_threshold(arr, b, ts[i], upper)
                    res = np.asarray(res, float)
                    if form == "2d":
                        res = res[1]
                    if not np.array_equal(np.isnan(arr), np.isnan(keep)) or not np.allclose(np.nan_to_num(arr, posinf=9e9, neginf=-9e9), np.nan_to_num(keep, posinf=9e9, neginf=-9e9)):
                        ctx.violation("apply_threshold-mutates-input", "apply_threshold modified its argument", {"bin": b})
                    for (vcls, x), e, rv in zip(probes, exp, res.tolist()):
                        ctx.count("apply_threshold_checked")
                        ctx.case("%s|%s|%s|apply_threshold-%s" % (b, tcls, vcls, form), vcls in ("equal", "just-below", "just-above", "nan", "+inf", "-inf"))
                        ok = (e is None and rv != rv) or (e is not None and rv == (1.0 if e else 0.0))
                        if not ok:
                            ctx.violation("apply_threshold-truth-table|%s" % b,
                                          "apply_threshold(%r, %s, %r, %r) -> %r, documented %r" % (x, b, ts[i], upper, rv, e),
                                          {"bin": b, "ts": ts, "i": i, "x": x})
                # --- contingency counting: obs = probe values, fcst = each probe in turn
                mets = {n: getattr(verif.metric, n)() for n in "ABCD"}
                N = verif.metric.N()
                # (infinite values cannot reach a contingency table: Data.get_scores drops them)
                fin = [(c_, v_) for c_, v_ in probes if c_ not in ("+inf", "-inf")]
                fxs = [v_ for _, v_ in fin]
                fexp = [expected(b, ts, i, v_) for v_ in fxs]
                for fi, (fcls, fx) in enumerate(fin):
                    obs = np.array(fxs)
                    fc = np.array([fx] * len(fxs))
                    ef = expected(b, ts, i, fx)
                    pairs = [(eo, ef) for eo in fexp if eo is not None and ef is not None]
                    a = sum(1 for eo, f_ in pairs if f_ and eo)
                    bb = sum(1 for eo, f_ in pairs if f_ and not eo)
                    c = sum(1 for eo, f_ in pairs if not f_ and eo)
                    d = sum(1 for eo, f_ in pairs if not f_ and not eo)
                    tot = a + bb + c + d
                    ctx.count("abcd_checked")
                    ctx.case("%s|%s|%s|contingency" % (b, tcls, fcls), True)
                    got_n = N.compute_from_obs_fcst(obs, fc, iv)
                    if got_n is np.ma.masked:
                        got_n = NAN
                    if tot == 0:
                        if not (got_n != got_n or got_n == 0):
                            ctx.violation("contingency-total|%s" % b, "no valid pair but N=%r" % got_n, {"bin": b})
                        continue
                    if got_n != tot:
                        ctx.violation("contingency-total|%s" % b, "bin %s ts %s: N=%r but %d valid pairs (fcst=%r)"
                                      % (b, ts, got_n, tot, fx), {"bin": b, "ts": ts, "i": i, "fx": fx})
                    for name, want in zip("ABCD", (a, bb, c, d)):
                        g = mets[name].compute_from_obs_fcst(obs, fc, iv)
                        if abs(g - want / float(tot)) > 1e-12:
                            ctx.violation("contingency-cell|%s" % b,
                                          "bin %s ts %s event %d fcst=%r: %s = %r, documented %r/%d"
                                          % (b, ts, i, fx, name.lower(), g, want, tot), {"bin": b, "ts": ts, "i": i, "fx": fx})
            # --- partition / complement laws on increasing thresholds
            if tcls.startswith("inc") and b == "within=" and len(set(ts)) == len(ts):
                grid = [ts[0] - 1 + 0.25 * k for k in range(int((ts[-1] - ts[0] + 2) * 4) + 1)] + list(ts)
                for x in grid:
                    memb = [bool(iv.within(x)) for iv in ivs]
                    ctx.count("partition_checked")
                    inside = ts[0] < x <= ts[-1]
                    if sum(memb) != (1 if inside else 0):
                        ctx.violation("within=-partition", "x=%r is in %d of the within= bins of %s (should be %d)"
                                      % (x, sum(memb), ts, 1 if inside else 0), {"ts": ts, "x": x})
            if b == "above":
                below_eq = verif.util.get_intervals("below=", np.array(ts))
                for iv_a, iv_b in zip(ivs, below_eq):
                    for vcls, x in probes:
                        if x != x or x in (INF, -INF):
                            continue
                        ctx.count("partition_checked")
                        if bool(iv_a.within(x)) == bool(iv_b.within(x)):
                            ctx.violation("above-not-complement-of-below=", "x=%r t=%r" % (x, iv_a.lower), {"x": x})
        # --- event probability from CDF values
        for p0, p1 in itertools.product([0.0, 0.125, 0.5, 1.0], repeat=2):
            if p1 < p0:
                continue
            ul, lc, uu, uc = attach.BIN_TABLE[b]
            arr0 = np.array([p0, NAN, p0])
            arr1 = np.array([p1, p1, NAN])
            got = verif.util.apply_threshold_prob(arr0, b, arr1 if (ul and uu) else None)
            if ul and uu:
                want = [p1 - p0, NAN, NAN]
            elif uu:
                want = [p0, NAN, p0]
            else:
                want = [1 - p0, NAN, 1 - p0]
            ctx.count("prob_checked")
            ctx.case("%s|prob|%s,%s" % (b, p0, p1), p0 in (0.0, 1.0) or p1 in (0.0, 1.0))
            for g, w in zip(np.asarray(got, float).tolist(), want):
                if not ((g != g and w != w) or abs(g - w) < 1e-12):
                    ctx.violation("event-probability|%s" % b, "P(event %s) from cdf %r/%r -> %r, documented %r"
                                  % (b, p0, p1, g, w), {"bin": b})


def run_cli_part(desc, ctx):
    """Values sitting exactly on thresholds, through files and the command line."""
    import numpy as np
    import matplotlib.pyplot as mpl
    rng = random.Random("C07-cli-%s-%s" % (desc["seed"], desc["k"]))
    d = os.path.join(ctx.workdir, "cli")
    os.makedirs(d, exist_ok=True)
    ts = sorted(rng.sample([0.0, 1.0, 2.0, 3.0, 5.0, 8.0], 3))
    grid = sorted(set([ts[0] - 1] + ts + [(ts[0] + ts[1]) / 2, (ts[1] + ts[2]) / 2, ts[2] + 1]))
    times = gen.pick_times(rng, 3)
    leads = [0, 6, 12]
    locs = gen.LOC_POOL[:3]
    inp = gen.make_input(rng, "ev.txt", "text", times, leads, locs, miss=0.0)
    for c in inp["cells"].values():
        c["obs"] = rng.choice(grid + [None])
        c["fcst"] = rng.choice(grid + [None])
    path = gen.write_input(inp, d, None)
    pairs = [(c["obs"], c["fcst"]) for c in inp["cells"].values() if c["obs"] is not None and c["fcst"] is not None]
    obs_only = [c["obs"] for c in inp["cells"].values() if c["obs"] is not None]
    for b in BINS:
        ne = n_events(b, ts)
        want = {}
        for name in "abcd":
            want[name] = []
        for i in range(ne):
            eo = [expected(b, ts, i, o) for o, f in pairs]
            ef = [expected(b, ts, i, f) for o, f in pairs]
            n = float(len(pairs))
            want["a"].append(sum(1 for x, y in zip(eo, ef) if y and x) / n)
            want["b"].append(sum(1 for x, y in zip(eo, ef) if y and not x) / n)
            want["c"].append(sum(1 for x, y in zip(eo, ef) if not y and x) / n)
            want["d"].append(sum(1 for x, y in zip(eo, ef) if not y and not x) / n)
        for name in "abcd":
            o = runner.run_cli([path, "-m", name, "-r", ",".join(gen.fnum(t) for t in ts), "-b", b, "-x", "threshold",
                                "-type", "csv"])
            if o.status != "ok":
                ctx.violation("cli-failed|%s" % name, str(o.brief()), {"bin": b})
                continue
            h, rows = runner.parse_csv(o.stdout)
            got = [r[-1] for r in rows]
            ctx.count("cli_rows_checked", len(rows))
            ctx.case("%s|inc3|equal|cli-%s" % (b, name), True, {"argv": ["ev.txt", "-m", name, "-r", ts, "-b", b]})
            exp = ["%g" % w for w in want[name]]
            if got != exp:
                ctx.violation("cli-contingency|%s" % b, "-m %s -r %s -b %s: csv %s, documented %s" % (name, ts, b, got, exp),
                              {"bin": b, "ts": ts, "name": name})
        # -m within: the share of ABSOLUTE ERRORS inside each event (an error of exactly 0 sits on a threshold when 0 is one)
        tsw = ts if ts[0] == 0.0 else [0.0, ts[1], ts[2]]       # 0 is always the lowest threshold here
        o = runner.run_cli([path, "-m", "within", "-r", ",".join(gen.fnum(t) for t in tsw), "-b", b, "-x", "threshold", "-type", "csv"])
        if o.status == "ok":
            h, rows = runner.parse_csv(o.stdout)
            errs = [abs(o_ - f_) for o_, f_ in pairs]
            wantw = [100.0 * sum(1 for e in errs if expected(b, tsw, i, e)) / len(errs) for i in range(ne)]
            ctx.count("cli_rows_checked", len(rows))
            ctx.count("within_metric_rows", len(rows))
            ctx.case("%s|inc3|equal|cli-within" % b, 0.0 in errs and True, {"argv": ["ev.txt", "-m", "within", "-r", tsw, "-b", b]})
            if len(rows) != ne or not all(vutil.close_text_number(r[-1], w, 6) for r, w in zip(rows, wantw)):
                ctx.violation("cli-within-metric|%s" % b, "-m within -r %s -b %s: csv %s, documented %s (absolute errors %s)"
                              % (tsw, b, [r[-1] for r in rows], wantw, sorted(errs)[:12]), {"bin": b, "ts": tsw, "name": "within"})
        elif o.status == "crash":
            ctx.violation("cli-failed|within", str(o.brief()), {"bin": b})
        # -m freq: fraction of obs / fcst inside each event (read back from the figure)
        for metric, extra in (("freq", []),):
            o = runner.run_cli([path, "-m", metric, "-r", ",".join(gen.fnum(t) for t in ts), "-b", b] + extra, keep_fig=True)
            if o.status != "ok":
                ctx.violation("cli-failed|freq", str(o.brief()), {"bin": b})
                continue
            lines = [l for l in o.fig.axes[0].get_lines()]
            bylabel = {l.get_label(): l for l in lines}
            mpl.close("all")
            eo = [[expected(b, ts, i, x) for x, _ in pairs] for i in range(ne)]
            ef = [[expected(b, ts, i, y) for _, y in pairs] for i in range(ne)]
            wo = [sum(1 for e in row if e) / float(len(row)) for row in eo]
            wf = [sum(1 for e in row if e) / float(len(row)) for row in ef]
            ctx.count("cli_rows_checked", ne)
            ctx.case("%s|inc3|equal|cli-freq" % b, True)
            lo = bylabel.get("Observed")
            lf = bylabel.get("ev.txt")
            if lo is None or lf is None:
                ctx.violation("freq-lines-missing", "labels %s" % list(bylabel), {"bin": b})
                continue
            if not np.allclose(lo.get_ydata(), wo, atol=1e-12) or not np.allclose(lf.get_ydata(), wf, atol=1e-12):
                ctx.violation("cli-freq|%s" % b, "-m freq -b %s -r %s: obs %s fcst %s, documented %s / %s"
                              % (b, ts, list(lo.get_ydata()), list(lf.get_ydata()), wo, wf), {"bin": b, "ts": ts})
        # conditional axes: -m <field> -x obs|fcst -agg count = number of pairs whose AXIS variable lies in each event
        for mfield in ("obs", "fcst"):
            for xfield in ("obs", "fcst"):
                o = runner.run_cli([path, "-m", mfield, "-x", xfield, "-agg", "count", "-r", ",".join(gen.fnum(t) for t in ts), "-b", b,
                                    "-type", "csv"])
                if o.status != "ok":
                    ctx.violation("cli-failed|cond", str(o.brief()), {"bin": b})
                    continue
                h, rows = runner.parse_csv(o.stdout)
                got = [r[-1] for r in rows]
                j = 0 if xfield == "obs" else 1
                if mfield == xfield:
                    # only this field is requested: every case where IT is present counts (the other may be missing)
                    pop = [c_[xfield] for c_ in inp["cells"].values() if c_[xfield] is not None]
                else:
                    pop = [pr[j] for pr in pairs]
                want_c = [sum(1 for v_ in pop if expected(b, ts, i, v_)) for i in range(ne)]
                ctx.count("cli_rows_checked", ne)
                ctx.case("%s|inc3|equal|cli-cond-%s-on-%s" % (b, mfield, xfield), True)
                if len(got) != ne or any(not ((w == 0 and g.lower() in ("nan", "0")) or g == "%g" % w) for g, w in zip(got, want_c)):
                    ctx.violation("cli-conditional-count|%s" % b, "-m %s -x %s -agg count -r %s -b %s: %s, pairs whose %s lies in each event: %s"
                                  % (mfield, xfield, ts, b, got, xfield, want_c), {"bin": b, "ts": ts})
        # -hist on the obs field: percentage of obs in each event
        o = runner.run_cli([path, "-m", "obs", "-hist", "-r", ",".join(gen.fnum(t) for t in ts), "-b", b], keep_fig=True)
        if o.status == "ok":
            line = o.fig.axes[0].get_lines()[0]
            got = list(line.get_ydata())
            mpl.close("all")
            cnt = [sum(1 for x in obs_only if expected(b, ts, i, x)) for i in range(ne)]
            tot = float(sum(cnt))
            ctx.count("cli_rows_checked", ne)
            ctx.case("%s|inc3|equal|cli-hist" % b, True)
            if tot > 0:
                want_h = [c * 100.0 / tot for c in cnt]
                if not np.allclose(got, want_h, atol=1e-9):
                    ctx.violation("cli-hist|%s" % b, "-hist -b %s -r %s: %s, documented %s" % (b, ts, got, want_h), {"bin": b})
        else:
            ctx.violation("cli-failed|hist", str(o.brief()), {"bin": b})


def run_quantile_events(desc, ctx):
    """quantilecoverage applies the -b open/closed ends to the quantile forecasts itself: observations exactly equal
    to a quantile value decide."""
    rng = random.Random("C07-q-%s-%s" % (desc["seed"], desc["k"]))
    d = os.path.join(ctx.workdir, "qcov")
    os.makedirs(d, exist_ok=True)
    inp = gen.make_input(rng, "qc.txt", "text", gen.pick_times(rng, 4), [0, 12, 24], gen.LOC_POOL[:3], quantiles=[0.25, 0.75], miss=0.0,
                         vrange=(0, 10), integerish=True)
    for c in inp["cells"].values():
        lo = float(rng.randint(0, 5))
        hi = lo + rng.randint(0, 4)
        c["q"] = [lo, hi]
        c["obs"] = rng.choice([lo, hi, lo - 1, hi + 1, (lo + hi) / 2.0, None])
    path = gen.write_input(inp, d, None)
    rows_ = [(c["obs"], c["q"][0], c["q"][1]) for c in inp["cells"].values() if c["obs"] is not None]
    n = float(len(rows_))
    for b in BINS:
        ul, lc, uu, uc = attach.BIN_TABLE[b]
        o = runner.run_cli([path, "-m", "quantilecoverage", "-q", "0.25,0.75", "-b", b, "-x", "threshold", "-type", "csv"])
        if o.status != "ok":
            ctx.violation("cli-failed|quantilecoverage", str(o.brief()), {"bin": b})
            continue
        h, rows = runner.parse_csv(o.stdout)
        got = [r[-1] for r in rows]
        if ul and uu:
            want = [sum(1 for ob, lo, hi in rows_ if (lo < ob or (lc and lo == ob)) and (ob < hi or (uc and ob == hi))) / n]
        elif uu:      # below / below=: the observation is below the quantile forecast
            want = [sum(1 for ob, lo, hi in rows_ if ob < q or (uc and ob == q)) / n for q in (None,)] if False else \
                [sum(1 for ob, lo, hi in rows_ if ob < (lo, hi)[j] or (uc and ob == (lo, hi)[j])) / n for j in (0, 1)]
        else:         # above / above=
            want = [sum(1 for ob, lo, hi in rows_ if ob > (lo, hi)[j] or (lc and ob == (lo, hi)[j])) / n for j in (0, 1)]
        ctx.count("cli_rows_checked", len(rows))
        ctx.case("%s|inc2|equal|cli-quantilecoverage" % b, True, {"argv": ["qc.txt", "-m", "quantilecoverage", "-q", "0.25,0.75", "-b", b]})
        exp = ["%g" % w for w in want]
        if got != exp:
            ctx.violation("cli-quantile-event|%s" % b, "-m quantilecoverage -q 0.25,0.75 -b %s: csv %s, documented event gives %s" % (b, got, exp),
                          {"bin": b})


def run_ensemble_events(desc, ctx):
    """event probabilities taken from ensemble members: P(X<=upper) - P(X<=lower) over the PRESENT members only (a missing
    member belongs to no event), for every bin type, through metric.get_p on a real dataset"""
    import numpy as np
    import verif.metric
    import verif.util
    from vmon import refmodel, vutil
    rng = random.Random("C07-ens-%s-%s" % (desc["seed"], desc["k"]))
    d = os.path.join(ctx.workdir, "ensev")
    os.makedirs(d, exist_ok=True)
    M = rng.randint(2, 5)
    inp = gen.make_input(rng, "ens.txt", "text", gen.pick_times(rng, 3), [0, 12, 24], gen.LOC_POOL[:3], members=M, miss=0.0, vrange=(0, 8),
                         integerish=True)
    for c in inp["cells"].values():
        r = rng.random()
        if r < 0.4:
            for j in rng.sample(range(M), rng.randint(1, M - 1)):
                c["e"][j] = None
        elif r < 0.5:
            c["e"] = [None] * M
    path = gen.write_input(inp, d, rng)
    ds = {"inputs": [inp], "clim": None}
    data = vutil.build_data([path])
    ts = [2.0, 5.0]
    # every event is asked for twice from the same Data object (as two diagrams of one session do): the second answer
    # must be the documented probability as well
    reqs = [(0, b) for b in BINS] + [(1, b) for b in BINS for _ in range(rng.randint(0, 2))]
    head = reqs[:len(BINS)]
    tail = reqs[len(BINS):]
    rng.shuffle(head)
    rng.shuffle(tail)          # (an even number of repeats could hide a request that toggles shared state)
    for rep, b in head + tail:
        ul, lc, uu, uc = attach.BIN_TABLE[b]
        ivs = verif.util.get_intervals(b, np.array(ts))
        for i, iv in enumerate(ivs):
            t0 = ts[i]
            t1 = ts[i + 1] if (ul and uu) else None
            obsP, p = verif.metric.get_p(data, 0, vutil.vaxis("no"), 0, iv)
            flds = [("obs",)] + ([("thr", t0), ("thr", t1)] if (ul and uu) else [("thr", t0)])
            cases = refmodel.valid_cases(ds, 0, flds)
            want_p = []
            want_o = []
            for c in cases:
                v = c[3]
                want_o.append(1.0 if attach.in_documented_event(v[0], b, t0, t1) else 0.0)
                want_p.append(v[2] - v[1] if (ul and uu) else (v[1] if uu else 1.0 - v[1]))
            gp = sorted(float(x) for x in np.asarray(p, float).flatten() if x == x)
            go = sorted(float(x) for x in np.asarray(obsP, float).flatten() if x == x)
            ctx.count("prob_checked", len(want_p))
            ctx.count("event_probability_requests_repeated", rep)
            ctx.case("%s|inc2|nan|ensemble-probability" % b, True, {"bin": b, "thresholds": ts, "members": M})
            if len(gp) != len(want_p) or any(abs(a - b_) > 1e-6 for a, b_ in zip(gp, sorted(want_p))):
                ctx.violation("ensemble-event-probability|%s%s" % (b, "|second-request" if rep else ""), "bin %s %s: probabilities from the ensemble %s, fraction of PRESENT members gives %s"
                              % (b, (t0, t1), gp[:10], sorted(want_p)[:10]), {"bin": b})
            if go != sorted(want_o):
                ctx.violation("ensemble-event-observed|%s" % b, "bin %s: observed event indicators differ" % b, {"bin": b})


def run_fss_events(desc, ctx):
    """The fractions skill score thresholds obs and fcst into events itself: an event and its complement (above / below=,
    above= / below) give the same score at every scale, values equal to the threshold and missing values included, and the
    score equals the neighbourhood / window reference evaluated with the documented event."""
    from vmon.props import c04
    rng = random.Random("C07-fss-%s-%s" % (desc["seed"], desc["k"]))
    n = 6 if desc["tier"] == "quick" else 80
    for ci in range(n):
        ds = gen.make_dataset(rng, n_inputs=rng.choice([1, 2]), fmt="text", miss=0.0, sparse=0.0, same_dims=True, max_t=3, max_l=4,
                              vrange=(0, 8), integerish=True, loc_pool=c04.FSS_LOCS, n_locs=rng.randint(5, 8),
                              leadtime_pool=[0, 3, 6, 9, 12, 18, 24])
        thr = rng.choice([2.0, 3.0, 4.0, 5.0])       # integer data: many values equal the threshold
        times, leads, locs = refmodel.common_dims(ds)
        # outages: a station silent over consecutive lead times, a run missing everywhere
        for inp in ds["inputs"]:
            for _o in range(rng.randint(0, 3)):
                t0, s0 = rng.choice(times), rng.choice(locs)[0]
                i0 = rng.randrange(len(leads))
                for l in leads[i0:i0 + rng.randint(2, 3)]:
                    inp["cells"][gen.ck(t0, l, s0)][rng.choice(["obs", "fcst"])] = None
        d = os.path.join(ctx.workdir, "fss%d" % ci)
        os.makedirs(d)
        paths, _ = gen.materialize(ds, d, None)
        F = len(ds["inputs"])
        for axis in ("leadtime", "location"):
            out = {}
            for b in ("above", "below=", "above=", "below"):
                o = runner.run_cli(paths + ["-m", "fss", "-r", gen.fnum(thr), "-b", b, "-x", axis, "-type", "csv"])
                ctx.count("fss_event_runs")
                if o.status == "ok":
                    h, rows = runner.parse_csv(o.stdout)
                    out[b] = {r[0]: r[len(h) - F:] for r in rows}
                elif o.status == "crash":
                    ctx.violation("fss-crash|%s@%s" % (o.exc_type, o.where), o.tb, {"ds": ds, "bin": b})
            ctx.case("fss-events|%s" % axis, True, {"threshold": thr, "axis": axis})
            for b1, b2 in (("above", "below="), ("above=", "below")):
                if b1 in out and b2 in out:
                    for key, vals in out[b1].items():
                        for k in range(F):
                            x, y = vals[k], out[b2].get(key, [None] * F)[k]
                            ctx.count("fss_complement_checks")
                            same = (x == y) or (x is not None and y is not None and x.lower() != "nan" and y.lower() != "nan"
                                                and abs(float(x) - float(y)) <= 2e-6 + 5e-5 * abs(float(x)))      # (single precision inside)
                            if not same:
                                ctx.violation("fss-complement|%s" % axis, "-m fss -r %s -x %s scale %s input %d: -b %s gives %s, the complementary "
                                              "event -b %s gives %s" % (thr, axis, key, k, b1, x, b2, y), {"ds": ds, "threshold": thr})
            if "above" in out and axis == "leadtime":
                for key, vals in out["above"].items():
                    for k in range(F):
                        want = c04.ref_fss_temporal(ds, k, thr, float(key))
                        got = vals[k]
                        ok = (got.lower() == "nan") if want != want else (got.lower() != "nan" and abs(float(got) - want) < 1e-5 * max(1.0, abs(want)))
                        if not ok:
                            ctx.violation("fss-event-reference|leadtime", "-m fss -r %s -b above scale %s input %d: %s, events x > %s over the "
                                          "valid cases give %r" % (thr, key, k, got, thr, want), {"ds": ds, "threshold": thr})


def run_window(desc, ctx):
    """scripts/window.py -r t -b <bin>: the weather window at lead time o ends after as many lead times as there are running
    totals (from o onwards) inside the event - the event being the one the bin type documents, ties with the threshold included
    or not accordingly"""
    from vmon.props import c20
    rng = random.Random("C07-window-%s-%s" % (desc["seed"], desc["k"]))
    base = os.path.join(ctx.workdir, "window")
    for ci in range(4 if desc["tier"] == "quick" else 40):
        d = os.path.join(base, "w%d" % ci)
        os.makedirs(d, exist_ok=True)
        thr = rng.choice([1.0, 2.0, 0.5])
        vals = [0.0, 0.0, 0.25, 0.5, 0.5, 1.0, 2.0, None]
        times = c20.times_before_2038(rng, 2)
        leads = sorted(rng.sample([0, 3, 6, 12, 18, 24, 30, 36, 48], rng.randint(3, 6)))
        inp = gen.make_input(rng, "w.txt" if rng.random() < 0.5 else "w.nc", "text", times, leads, gen.LOC_POOL[:2], miss=0.0)
        inp["fmt"] = "nc" if inp["name"].endswith(".nc") else "text"
        for c in inp["cells"].values():
            c["obs"] = rng.choice(vals)
            c["fcst"] = rng.choice(vals)
        path = gen.write_input(inp, d, None)
        for b in ("below", "below=", "above", "above="):
            outp = os.path.join(d, "out-%s.nc" % b.replace("=", "e"))
            r = c20.run_script("window.py", [path, outp, "-r", gen.fnum(thr), "-b", b])
            case = {"inp": inp, "threshold": thr, "bin": b}
            if r.returncode != 0 or not os.path.exists(outp):
                ctx.violation("window-script-failed|%s" % b, (r.stdout + r.stderr)[-500:], case)
                continue
            out = c20.read_nc(outp)
            ti = {float(v): j for j, v in enumerate(out["time"].tolist())}
            li = {round(float(v), 3): j for j, v in enumerate(out["leadtime"].tolist())}
            si = {float(v): j for j, v in enumerate(out["location"].tolist())}
            ties = 0
            for field in ("obs", "fcst"):
                for t in times:
                    for loc in inp["locs"]:
                        series = [inp["cells"][gen.ck(t, l, loc[0])].get(field) for l in leads]
                        for o in range(len(leads)):
                            acc, q = 0.0, 0
                            for j in range(o, len(leads)):
                                acc = acc + series[j] if (series[j] is not None and acc == acc) else NAN
                                if acc == acc:
                                    ties += acc == thr
                                    q += 1 if expected(b, [thr], 0, acc) else 0
                            want = NAN if series[o] is None else leads[min(q + o, len(leads) - 1)] - leads[o]
                            got = float(out[field][ti[float(t)], li[round(float(leads[o]), 3)], si[float(loc[0])]])
                            ctx.count("window_cells")
                            if not ((got != got and want != want) or got == want):
                                ctx.violation("window-event|%s" % b, "window.py -r %s -b %s: %s series %s (lead times %s), window from lead "
                                              "time %s = %r, the documented event gives %r" % (gen.fnum(thr), b, field, series, leads, leads[o], got, want), case)
                                break
            ctx.case("window|%s|thr%s" % (b, gen.fnum(thr)), ties > 0, {"argv": ["window.py", "-r", thr, "-b", b], "running totals equal to the threshold": ties})


def run_shard(desc, ctx):
    if desc["part"] == "window":
        return run_window(desc, ctx)
    if desc["part"] == "fss":
        return run_fss_events(desc, ctx)
    if desc["part"] == "ensevents":
        return run_ensemble_events(desc, ctx)
    if desc["part"] == "qevents":
        return run_quantile_events(desc, ctx)
    if desc["part"] == "api":
        run_api(desc, ctx)
    elif desc["part"] == "cli":
        run_cli_part(desc, ctx)
    else:
        attach.attach_events(ctx)
        ambient.run(ctx, "%s-%s" % (desc["seed"], desc["k"]), desc["n"])
        attach.detach_all()


def replay(case, ctx):
    # all cases are re-derivable: re-run the exhaustive api part for the recorded bin type (or everything)
    bins = [case["bin"]] if case and case.get("bin") in BINS else BINS
    run_api({"bins": bins}, ctx)
    run_cli_part({"seed": 0, "k": 0}, ctx)
