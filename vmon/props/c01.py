"""C01 Fair comparison: every input is scored on the identical set of cases."""
import os
import random

from vmon import gen, refmodel, runner, vutil

RULE = ("random families of 1-4 inputs (+ optional climatology) with independent dimension subsets, 0-30% missing "
        "per field, sparse text rows, inputs lacking obs, text and NetCDF mixed; for every applicable field "
        "combination x every axis x every slice x every input, Data.get_scores is compared with the reference "
        "valid-case set (multiset of value tuples), all inputs must return equal counts and identical obs "
        "multisets, `-m mae -agg count` csv must equal the reference counts, and perturbing another input's "
        "present forecasts must leave this input's csv column byte-identical. signature = (#inputs, clim?, "
        "formats, field combo, axis); non-trivial = at least one case of that request is dropped from an input "
        "only because ANOTHER input/climatology lacks a value there.")
RULE += " " + 'Half of the cases run under random selection options (-d/-tod/-t/-o/-l/-lx/-latrange/-lonrange/-elevrange) through API and csv.'
RULE += " " + 'A request ledger spies Data.get_scores while EVERY metric runs for every input (all arrays fetched for one (input, axis, slice) evaluation have one common length, the same for all inputs) and metric.get_p / get_q (cases entering a probabilistic score); crossing threshold probabilities occur; the metamorphic perturbation hits an input at a random position and uses -m fss on an unevenly dense station network in part of the cases.'
RULE += " " + "Rounds 9-10: the Brier family is evaluated on each dataset's common cases with exact 0/1 probabilities planted in single files."
RULE += " " + 'Rounds 11-12: half of the deterministic cases run under -T h -Tagg f (an incomplete window in one file removes the case everywhere); obsfcst tables against the reference on the common cases.'
RULE += " " + 'Rounds 13-14: 40 % of the cases keep one file name in different directories (expA/fcst expB/fcst, also the climatology).'
ASSUMPTIONS = ["observations agree between files wherever several files have them (files describe the same truth)",
               "all inputs of an ensemble request have the same number of members"]
REQUIRED_COUNTERS = ["get_scores_compared", "cross_input_equal_checks", "metamorphic_pairs", "count_csv_rows", "whole_array_checks"]
ANCHOR_FUNCS = ["Data._get_score", "Data.get_scores", "Data._get_common_indices"]


def plan(tier, seed):
    n = 16
    per = 14 if tier == "quick" else 400
    return [{"seed": seed, "shard": i, "ncases": per, "tier": tier} for i in range(n)]


def gen_case(rng):
    kind = rng.choice(["det", "det", "prob", "ens", "pit"])
    fss = kind == "det" and rng.random() < 0.3
    if fss:
        # a station network of uneven density (tight cluster + scattered stations) for the neighbourhood-based fractions skill score
        from . import c04
        ds = gen.make_dataset(rng, n_inputs=rng.choice([2, 3]), miss=rng.choice([0.0, 0.1]), max_t=3, max_l=3, vrange=(0, 12),
                              loc_pool=c04.FSS_LOCS, n_locs=rng.randint(7, 10))
    else:
        ds = gen.make_dataset(rng, clim=rng.random() < 0.3, prob=(kind == "prob"), ens=(kind == "ens"),
                              pit=(kind in ("pit", "prob")), some_without_obs=rng.random() < 0.4,
                              members=rng.randint(1, 5))
    if kind == "prob" and rng.random() < 0.5:
        # independently estimated threshold probabilities may cross (P(x<=hi) < P(x<=lo)): still the same case set
        for inp in ds["inputs"]:
            for c in inp["cells"].values():
                if c.get("p") and len(c["p"]) >= 2 and None not in c["p"] and rng.random() < 0.2:
                    c["p"] = list(reversed(c["p"]))
    if kind == "prob":
        for inp in ds["inputs"]:
            for c in inp["cells"].values():
                if c.get("p") and None not in c["p"] and rng.random() < 0.15:
                    j = rng.randint(0, len(c["p"]))
                    c["p"] = [0.0 if i_ < j else 1.0 for i_ in range(len(c["p"]))]
    sel = {}
    if rng.random() < 0.5:
        # selection options in force (-d/-tod/-t/-o/-l/...): the case sets must stay identical across inputs
        from . import c03
        for _ in range(20):
            o, _cls = c03.gen_opts(rng, ds)
            o.pop("obsrange", None)
            t, l, s_ = refmodel.common_dims(ds, o)
            if o and t and l and s_:
                sel = o
                break
    r2 = random.Random("C01-T-%d-%d" % (len(ds["inputs"]), len(ds["inputs"][0]["cells"])))
    if kind == "det" and not fss and not ds.get("clim") and r2.random() < 0.5:
        # -T h -Tagg f: a case whose trailing window is incomplete in ONE file is no case for any file (own random stream)
        sel = dict(sel)
        sel["T"] = {"h": r2.choice([1, 3, 6, 12, 24, 48]), "agg": r2.choice(["mean", "sum", "sum", "max", "min", "median"]), "tx": "leadtime"}
    return {"ds": ds, "kind": kind, "clim_type": rng.choice(["subtract", "subtract", "divide"]), "sel": sel, "fss": fss}


def field_combos(ds, kind):
    combos = [[("obs",), ("fcst",)], [("obs",)], [("fcst",)]]
    i0 = ds["inputs"][0]
    if kind == "prob":
        th, qs = i0["thresholds"], i0["quantiles"]
        combos.append([("obs",), ("thr", th[0])])
        combos.append([("obs",), ("thr", th[0]), ("thr", th[-1])])
        combos.append([("obs",), ("q", qs[0])])
        combos.append([("obs",), ("fcst",), ("q", qs[0]), ("q", qs[-1])])
        combos.append([("pit",)])
    if kind == "pit":
        combos.append([("pit",)])
        combos.append([("obs",), ("pit",)])
    if kind == "ens":
        combos.append([("obs",), ("thr", 7.5)])
        combos.append([("ens", 0)])
        combos.append([("obs",), ("fcst",), ("ens", 0)])
    return combos


def combo_name(c):
    return "+".join(f[0] + (gen.fnum(f[1]) if len(f) > 1 and not isinstance(f[1], str) else "") for f in c)


def only_others_drop(ds, k, fields, opts):
    """Is some case dropped from input k only because another input lacks a value?"""
    solo = {"inputs": [ds["inputs"][k]], "clim": None}
    try:
        mine = set((c[0], c[1], c[2][0]) for c in refmodel.valid_cases(solo, 0, fields, None))
    except KeyError:
        return True   # input k alone cannot even provide the field (e.g. no obs): it depends on the others
    allc = set((c[0], c[1], c[2][0]) for c in refmodel.valid_cases(ds, k, fields, opts))
    times, leads, locs = refmodel.common_dims(ds, opts)
    common = set((t, l, s[0]) for t in times for l in leads for s in locs)
    return len((mine & common) - allc) > 0


def tuples(lists):
    return sorted(zip(*lists)) if lists and len(lists[0]) else []


def run_case(case, ctx):
    import numpy as np
    ds = case["ds"]
    kind = case["kind"]
    opts = {"clim_type": case["clim_type"]}
    opts.update(case.get("sel") or {})
    sargv = vutil.opts_to_argv(case.get("sel") or {})
    if sargv:
        ctx.count("cases_with_selection_options")
    if (case.get("sel") or {}).get("T"):
        ctx.count("cases_with_T_preaggregation")
    d = os.path.join(ctx.workdir, "c%d" % ctx.evaluations)
    os.makedirs(d, exist_ok=True)
    # under -T the files are written with their dimensions stored ascending (a NetCDF file that stores lead times in another
    # order gets other windows: the recorded C15 finding, not a case-set question)
    paths, cpath = gen.materialize(ds, d, None if opts.get("T") else random.Random(len(ds["inputs"][0]["cells"]) + 7 * len(ds["inputs"])))
    if random.Random("sb|%d|%d|%s" % (len(ds["inputs"][0]["cells"]), len(ds["inputs"]), kind)).random() < 0.4:
        # the same file name in different directories: every input (and the climatology) is still its own file
        paths, cpath, moved = gen.same_basename(paths, cpath, d)
        if moved:
            ctx.count("cases_with_same_file_name_in_different_directories")
    F = len(ds["inputs"])
    fmts = "".join(i["fmt"][0] for i in ds["inputs"]) + ("+c" + ds["clim"]["fmt"][0] if ds["clim"] else "")
    ensemble_derived = kind == "ens"
    rel = 1e-6 if (ensemble_derived or case["clim_type"] == "divide" or opts.get("T")) else 1e-12
    # under -T each obs-bearing file's observations are aggregated over its own lead-time grid: they are the same
    # observations for every input only when those grids agree
    obs_grids = set(tuple(sorted(i["leadtimes"])) for i in ds["inputs"] if "obs" in i["has"])
    same_obs_everywhere = not opts.get("T") or len(obs_grids) <= 1

    for fields in field_combos(ds, kind):
        cname = combo_name(fields)
        vf = [vutil.vfield(f) for f in fields]
        # does every input provide the fields?  (error exit is the documented outcome otherwise)
        try:
            ref_all = [refmodel.valid_cases(ds, k, fields, opts) for k in range(F)]
        except KeyError:
            continue
        data = vutil.build_data(paths, cpath, opts)
        for axis in refmodel.ALL_AXES:
            vax = vutil.vaxis(axis)
            nontrivial = any(only_others_drop(ds, k, fields, opts) for k in range(F))
            labels = refmodel.slice_labels(ds, axis, opts)
            n_slices = data.get_axis_size(vax)
            if n_slices != len(labels):
                ctx.violation("slice-count|axis=%s" % axis, "axis %s: verif has %d slices, reference %d"
                              % (axis, n_slices, len(labels)), case)
                continue
            for idx in range(n_slices):
                per_input = []
                for k in range(F):
                    got = data.get_scores(list(vf), k, vax, idx)
                    got = [vutil.sentinel_or_list(g) for g in got]
                    per_input.append(got)
                    exp_slices = refmodel.slices(ds, k, fields, axis, opts)
                    exp = exp_slices[idx][1]
                    ctx.count("get_scores_compared")
                    gt = tuples(got)
                    et = sorted(tuple(v) for v in exp)
                    ok = len(gt) == len(et)
                    if ok:
                        for a, b in zip(gt, et):
                            for x, y in zip(a, b):
                                if isinstance(y, tuple):      # ensemble quantile: range only
                                    if not (min(y[1]) - 1e-9 <= x <= max(y[1]) + 1e-9):
                                        ok = False
                                elif not vutil.num_equal(x, y, rel, rel):
                                    ok = False
                    if not ok:
                        ctx.violation("caseset-mismatch|fields=%s|clim=%s" % (cname.split("+")[0] + "..", bool(cpath)),
                                      "input %d fields %s axis %s slice %d: verif returned %d cases %s, reference %d cases %s"
                                      % (k, cname, axis, idx, len(gt), gt[:6], len(et), et[:6]), case)
                    if any(not np.all(np.isfinite(g)) for g in got if len(g)):
                        ctx.violation("nonfinite-returned", "get_scores returned NaN/inf inside a non-empty result: %s"
                                      % (got,), case)
                # cross-input trace invariant: same number of cases, identical observation multisets
                ctx.count("cross_input_equal_checks")
                lens = [len(p[0]) for p in per_input]
                if len(set(lens)) > 1:
                    ctx.violation("unequal-case-counts", "fields %s axis %s slice %d: case counts per input %s"
                                  % (cname, axis, idx, lens), case)
                if fields[0] == ("obs",) and same_obs_everywhere:
                    obs0 = sorted(per_input[0][0])
                    for k in range(1, F):
                        if sorted(per_input[k][0]) != obs0:
                            ctx.violation("different-observations", "fields %s axis %s slice %d: input %d is scored against "
                                          "different observations than input 0" % (cname, axis, idx, k), case)
            ctx.case("%d|%s|%s|%s|%s" % (F, bool(cpath), fmts, cname, axis), nontrivial,
                     {"inputs": gen.ds_summary(ds), "fields": cname, "axis": axis, "clim": case["clim_type"] if cpath else None,
                      "selection": sargv})

    # whole-array requests (axis All) for every input on ONE dataset object: same cells, identical observations
    fields = [("obs",), ("fcst",)]
    try:
        refmodel.valid_cases(ds, 0, fields, opts)
        ok_fields = all("fcst" in i["has"] for i in ds["inputs"])
    except KeyError:
        ok_fields = False
    if ok_fields:
        import verif.field
        data = vutil.build_data(paths, cpath, opts)
        times, leads, locs = refmodel.common_dims(ds, opts)
        got = []
        for rnd in range(2):          # twice: results must not drift with repeated / interleaved requests
            for k in range(F):
                o, f = data.get_scores([verif.field.Obs(), verif.field.Fcst()], k)
                if rnd == 1:
                    o2 = data.get_scores(verif.field.Obs(), k)
                got.append((k, np.array(o, float), np.array(f, float)))
        for (k, o, f) in got:
            ctx.count("whole_array_checks")
            bad = None
            for a, t in enumerate(times):
                for b, l in enumerate(leads):
                    for c, s_ in enumerate(locs):
                        v = refmodel.case_values(ds, k, fields, t, l, s_[0], opts)
                        wo, wf = (float("nan"), float("nan")) if v is None else v
                        if not vutil.num_equal(float(o[a, b, c]), wo, rel, rel) or not vutil.num_equal(float(f[a, b, c]), wf, rel, rel):
                            bad = (t, l, s_[0], float(o[a, b, c]), float(f[a, b, c]), wo, wf)
                            break
                    if bad:
                        break
                if bad:
                    break
            if bad:
                ctx.violation("whole-array-cell|clim=%s" % bool(cpath), "get_scores([obs, fcst], %d) (whole array, requested for every input in turn on one "
                              "dataset): cell (%s,%s,%s) obs=%r fcst=%r, reference obs=%r fcst=%r" % ((k,) + bad), case)
                break
        ctx.case("%d|%s|%s|whole-array" % (F, bool(cpath), fmts), F >= 2)
    else:
        ctx.count("whole_array_checks", 0)

    # request ledger over EVERY metric: all the arrays one score evaluation fetches for (input, axis, slice) hold the same cases,
    # and the same number of cases for every input
    if kind in ("prob", "det", "pit") and not case.get("fss"):
        import verif.axis
        import verif.metric
        import verif.util
        i0_ = ds["inputs"][0]
        th_, qs_ = i0_["thresholds"], i0_["quantiles"]
        data = vutil.build_data(paths, cpath, opts)
        calls = {}
        orig_gs = data.get_scores

        def spy_gs(fields_, input_index, axis_=None, axis_index=None):
            r = orig_gs(fields_, input_index, axis_, axis_index) if axis_ is not None else orig_gs(fields_, input_index)
            res = r if isinstance(r, list) else [r]
            if axis_ is not None and axis_ != verif.axis.All():
                calls.setdefault((axis_.name(), axis_index), {}).setdefault(input_index, []).append([len(x) for x in res])
            return r
        data.get_scores = spy_gs
        vax = vutil.vaxis(random.Random(len(paths) + len(ds["inputs"][0]["cells"])).choice(["leadtime", "location", "time", "no"]))
        for mname, mcls in verif.metric.get_all():
            if not mcls.is_valid():
                continue
            try:
                m = mcls()
            except Exception:
                continue
            rt = getattr(m, "require_threshold_type", None)
            if rt == "threshold" and not th_:
                continue
            if rt == "quantile" and not qs_:
                continue
            if rt == "threshold":
                ivs = [verif.util.get_intervals("above", np.array([th_[0]]))[0]]
                if len(th_) >= 2:
                    ivs.append(verif.util.get_intervals("within", np.array([th_[0], th_[-1]]))[0])
            elif rt == "quantile":
                ivs = [verif.util.get_intervals("above", np.array([qs_[0]]))[0]]
                if len(qs_) >= 2:
                    ivs.append(verif.util.get_intervals("within", np.array([qs_[0], qs_[-1]]))[0])
            else:
                ivs = [verif.util.get_intervals("above", np.array([5.0]))[0]]
            for iv in ivs:
                calls.clear()
                ok_ = True
                for k in range(F):
                    try:
                        m.compute(data, k, vax, iv)
                    except (SystemExit, Exception):
                        ok_ = False
                        break
                if not ok_:
                    continue
                ctx.count("request_ledger_metrics")
                for (an, idx), per in calls.items():
                    lens = set()
                    for k, lst in per.items():
                        for ls in lst:
                            lens.update(ls)
                    # the "no valid case" placeholder has length 1; otherwise every array of every input has the same length
                    if len(lens) > 1:
                        ctx.violation("score-mixes-case-sets|%s" % mname.lower(),
                                      "-m %s (interval %s) axis %s slice %s: the arrays fetched for one score have lengths %s "
                                      "(per input: %s)" % (mname.lower(), iv, an, idx, sorted(lens), per), case)
                        break
        data.get_scores = orig_gs
        ctx.case("%d|%s|%s|request-ledger" % (F, bool(cpath), fmts), F >= 2)

    # the Brier family on the common case set of THIS dataset (different missing patterns per file, probabilities of exactly
    # 0 and 1 in single files): every input's score is the definition evaluated on all common cases, none silently left out
    if kind == "prob" and not sargv and not cpath:
        from vmon import refmetrics
        th0 = ds["inputs"][0]["thresholds"][0]
        # exact 0 / 1 probabilities in one file only
        fams = {"bs": refmetrics.brier, "bsrel": refmetrics.brier_rel, "bsres": refmetrics.brier_res, "bss": refmetrics.brier_ss,
                "bssrel": refmetrics.brier_ss_rel, "bssres": refmetrics.brier_ss_res}
        for mname, fn in fams.items():
            o_ = runner.run_cli(paths + ["-m", mname, "-r", gen.fnum(th0), "-x", "no", "-type", "csv"])
            if o_.status != "ok":
                continue
            h_, rows_ = runner.parse_csv(o_.stdout)
            for k in range(F):
                try:
                    cs = refmodel.valid_cases(ds, k, [("obs",), ("thr", th0)], opts)
                except KeyError:
                    break
                ob = [1.0 if c_[3][0] > th0 else 0.0 for c_ in cs]
                pp = [1.0 - c_[3][1] for c_ in cs]
                if any(abs(x * 10 - round(x * 10)) < 1e-9 and 0 < x < 1 for x in pp):
                    continue            # a probability on an interior bin edge (float noise decides the bin)
                bins = {}
                for x in pp:
                    bins.setdefault(refmetrics._bins10(x), set()).add(x)
                if mname != "bs" and any(len(v) > 1 for v in bins.values()) and mname in ("bss",):
                    pass
                want = fn(ob, pp) if cs else float("nan")
                ctx.count("brier_on_common_cases")
                txt = rows_[0][len(h_) - F + k] if rows_ else "nan"
                if want != want or want is None:
                    continue
                if not vutil.close_text_number(txt, want, 5) and not (txt.lower() != "nan" and abs(float(txt) - want) < 2e-6):
                    ctx.violation("score-not-on-common-cases|%s" % mname, "-m %s -r %s -x no input %d: csv %s, the definition on the %d common "
                                  "valid cases gives %r" % (mname, th0, k, txt, len(cs), want), case)

    # metric-entry ledger: how many cases enter a probabilistic score, per input (a score must not drop cases on its own)
    if kind == "prob":
        import verif.metric
        import verif.util
        ledger = {}
        orig_p, orig_q = verif.metric.get_p, verif.metric.get_q

        def spy_p(data_, input_index, axis_, axis_index, interval):
            r = orig_p(data_, input_index, axis_, axis_index, interval)
            ledger.setdefault(("p", axis_.name(), axis_index, float(interval.lower), float(interval.upper)), {})[input_index] = (len(r[0]), len(r[1]))
            return r

        def spy_q(data_, input_index, axis_, axis_index, interval):
            r = orig_q(data_, input_index, axis_, axis_index, interval)
            ledger.setdefault(("q", axis_.name(), axis_index, float(interval.lower), float(interval.upper)), {})[input_index] = (len(r[0]), len(r[1]))
            return r
        th, qs = ds["inputs"][0]["thresholds"], ds["inputs"][0]["quantiles"]
        verif.metric.get_p, verif.metric.get_q = spy_p, spy_q
        try:
            data = vutil.build_data(paths, cpath, opts)
            for axis in ("no", "leadtime", "location", "time"):
                vax = vutil.vaxis(axis)
                reqs = [("bs", "above", [th[0]]), ("bs", "below=", [th[-1]]), ("ign0", "above=", [th[0]])]
                if len(th) >= 2:
                    reqs += [("bs", "within", [th[0], th[-1]]), ("bsrel", "=within", [th[0], th[1]])]
                for mname, b, ts in reqs:
                    iv = verif.util.get_intervals(b, np.array(ts))[0]
                    two = len(ts) == 2
                    for k in range(F):
                        try:
                            verif.metric.get(mname).compute(data, k, vax, iv)
                        except SystemExit:
                            continue
                    flds = [("obs",), ("thr", ts[0])] + ([("thr", ts[1])] if two else [])
                    try:
                        want = [[len(s_[1]) for s_ in refmodel.slices(ds, k, flds, axis, opts)] for k in range(F)]
                    except KeyError:
                        continue
                    lo, hi = float(iv.lower), float(iv.upper)
                    for idx in range(len(want[0])):
                        got = ledger.get(("p", vax.name(), idx, lo, hi), {})
                        ctx.count("metric_entry_ledger_checks")
                        ns = [got.get(k) for k in range(F)]
                        if any(n is None for n in ns):
                            continue
                        if len(set(ns)) > 1 or any(n[0] != n[1] for n in ns) or any(n[0] != max(want[k][idx], 0) for k, n in enumerate(ns) if want[k][idx] > 0):
                            ctx.violation("cases-entering-score-differ", "-m %s -b %s -r %s axis %s slice %d: cases entering the score per input "
                                          "(obs, p) = %s, common valid cases %s" % (mname, b, ts, axis, idx, ns, [w[idx] for w in want]), case)
                for k in range(F):
                    try:
                        verif.metric.get("quantilescore").compute(data, k, vax, verif.util.get_intervals("above", np.array([qs[0]]))[0])
                    except SystemExit:
                        pass
                for key, got in ledger.items():
                    if key[0] == "q" and len(got) == F and len(set(got.values())) > 1:
                        ctx.violation("cases-entering-score-differ", "quantilescore %s: cases per input %s" % (key, got), case)
        finally:
            verif.metric.get_p, verif.metric.get_q = orig_p, orig_q
        ctx.case("%d|%s|%s|metric-entry-ledger" % (F, bool(cpath), fmts), F >= 2)

    # csv level: -agg count equals reference counts; metamorphic perturbation of another input
    if all("fcst" in i["has"] for i in ds["inputs"]):
        fields = [("obs",), ("fcst",)]
        try:
            refmodel.valid_cases(ds, 0, fields, opts)
        except KeyError:
            return
        cflag = []
        if cpath:
            cflag = ["-c" if case["clim_type"] == "subtract" else "-C", cpath]
        for axis in ("leadtime", "location", "time", "no"):
            o = runner.run_cli(paths + cflag + sargv + ["-m", "mae", "-agg", "count", "-x", axis, "-type", "csv"])
            if o.status != "ok":
                ctx.violation("csv-count-run-failed", "count csv failed: %s" % (o.brief(),), case)
                continue
            header, rows = runner.parse_csv(o.stdout)
            ncol = len(header) - F
            for k in range(F):
                exp = [len(s[1]) for s in refmodel.slices(ds, k, fields, axis, opts)]
                got = [r[ncol + k] for r in rows]
                ctx.count("count_csv_rows", len(rows))
                # an empty slice has no pair: count of an empty set is reported as nan or 0
                bad = len(got) != len(exp) or any(
                    not ((e == 0 and g.lower() in ("nan", "0")) or (e > 0 and g == "%g" % e)) for g, e in zip(got, exp))
                if bad:
                    ctx.violation("csv-count-mismatch", "-m mae -agg count -x %s column %d: got %s expected %s"
                                  % (axis, k, got, exp), case)
        if F >= 2:
            import random as _r
            mrng = _r.Random(len(ds["inputs"][0]["cells"]) * 31 + F)
            mcmd = mrng.choice([["-m", "mae"], ["-m", "rmse"], ["-m", "corr"], ["-m", "bias", "-agg", "median"], ["-m", "ets", "-r", "5"],
                                ["-m", "obs"], ["-m", "mae", "-agg", "count"]]) + ["-x", mrng.choice(["leadtime", "time", "location", "no", "month"])]
            if case.get("fss"):
                mcmd = ["-m", "fss", "-r", mrng.choice(["3", "5", "8"])]
                ctx.count("metamorphic_fss_pairs")
            mcmd = sargv + mcmd
            base = runner.run_cli(paths + cflag + mcmd + ["-type", "csv"])
            b = mrng.randrange(len(ds["inputs"]))          # the perturbed input: any position, not only the last
            ds2 = {"inputs": [dict(i) for i in ds["inputs"]], "clim": ds["clim"]}
            pert = dict(ds2["inputs"][b])
            pert["cells"] = {k: dict(c) for k, c in pert["cells"].items()}
            changed = 0
            for c in pert["cells"].values():
                if c.get("fcst") is not None:
                    c["fcst"] = c["fcst"] + 3.5
                    changed += 1
            ds2["inputs"][b] = pert
            d2 = os.path.join(d, "pert")
            os.makedirs(d2, exist_ok=True)
            p2 = os.path.join(d2, pert["name"])
            pert["style"] = dict(ds["inputs"][b]["style"])
            gen.write_input(pert, d2, None)
            o2 = runner.run_cli(paths[:b] + [p2] + paths[b + 1:] + cflag + mcmd + ["-type", "csv"])
            ctx.count("metamorphic_pairs")
            if base.status == "ok" and o2.status == "ok":
                h1, r1 = runner.parse_csv(base.stdout)
                h2, r2 = runner.parse_csv(o2.stdout)
                pc = len(h1) - F + b            # the perturbed input's column
                c1 = [r[:pc] + r[pc + 1:] for r in r1]
                c2 = [r[:pc] + r[pc + 1:] for r in r2]
                if c1 != c2:
                    ctx.violation("other-input-values-leak", "changing the present forecasts of input %d changed "
                                  "other inputs' scores (%s):\n%s\nvs\n%s" % (b, " ".join(mcmd), c1, c2), case)
                if changed and r1 and all(r[pc] == q[pc] for r, q in zip(r1, r2)) and any(r[pc] != "nan" for r in r1):
                    ctx.note("perturbation did not change the perturbed column (possible but unusual)")
            else:
                ctx.violation("metamorphic-run-failed", "%s / %s" % (base.brief(), o2.brief()), case)


def run_shard(desc, ctx):
    rng = random.Random("C01-%d-%d" % (desc["seed"], desc["shard"]))
    for _ in range(desc["ncases"]):
        case = gen_case(rng)
        run_case(case, ctx)
    # the obs / forecast / quantile lines of one -m obsfcst table are averages over the SAME cases (those valid in every file)
    from . import c12
    r2 = random.Random("C01-obsfcst-%d-%d" % (desc["seed"], desc["shard"]))
    for ci in range(4 if desc.get("tier") == "quick" else 60):
        c12.obsfcst_table(ctx, r2, ci)
        ctx.count("obsfcst_tables_on_common_cases")


def replay(case, ctx):
    run_case(case, ctx)
