"""C02 Values are matched by coordinates, not by position or file order."""
import itertools
import os
import random

from vmon import gen, refmodel, runner, vutil

RULE = ("families of 2-4 inputs (text and NetCDF) that list times / lead times / locations in their own random stored order "
        "with their own extra entries; (a) every cell of Data.get_scores(field, k, All) is compared with the value input "
        "k's dictionary holds at those coordinates (missing where any input lacks it); (b) every file is re-written with "
        "permuted rows, columns and NetCDF dimension entries (data cube permuted consistently) and a battery of csv "
        "commands must be byte-identical; (c) the files are given in every order (<= 24) and every input's csv column "
        "must stay the same and move with its file. signature = (#inputs, formats, which of rows/cols/dims/files were "
        "permuted, dims); non-trivial = the permutation is not the identity and the inputs' stored orders differ.")
RULE += " " + 'About a third of the families contain later files without an observation column (their observations are borrowed by coordinates).'
RULE += " " + "Families also contain twin lead-time grids (same length and ends, another interior value) with -T commands whose two file orders run in FRESH interpreters, files storing different observations, and a text2nc copy whose per-location scores must equal the text file's."
RULE += " " + 'Rounds 9-10: dense station networks with different observations per file run -m fss in all file orders; NetCDF files with an unwritten slot in the time coordinate.'
RULE += " " + 'Rounds 11-12: text variants with date+hour / offset / id columns; -m obsfcst -q in all file orders (a column named after a file keeps its numbers).'
ASSUMPTIONS = ["no duplicated coordinates inside a file; location metadata consistent across files (the first file's is used)",
               "-T is not combined with permuted NetCDF dimensions here (window-by-position is reported by C15)"]
REQUIRED_COUNTERS = ["cells_compared", "permutation_pairs", "file_orders", "columns_compared"]
ANCHOR_FUNCS = ["Data._get_common_indices", "Data._get_score"]

NAN = float("nan")


def plan(tier, seed):
    n = 12 if tier == "quick" else 200
    return [{"seed": seed, "k": k, "n": n} for k in range(16)]


def shuffled_nc_style(rng, inp, identity=False):
    order = {"time": list(range(len(inp["times"]))), "leadtime": list(range(len(inp["leadtimes"]))),
             "location": list(range(len(inp["locs"])))}
    if not identity:
        for k in order:
            rng.shuffle(order[k])
    fits = max(inp["times"]) < 2 ** 31 - 1
    unset = rng.randint(0, len(inp["times"])) if (not identity and rng.random() < 0.25) else None
    return {"enc": ["fill"], "unset_time_slot": unset, "order": order, "vars": {"location": True, "lat": True, "lon": True, "altitude": True},
            "time_type": "i4" if fits else "f8"}


def write_variant(ds, d, rng, identity, conflict=False):
    """Write every input; identity=False permutes rows/columns/dimension entries."""
    os.makedirs(d, exist_ok=True)
    paths = []
    nonid = False
    for inp in ds["inputs"]:
        w = dict(inp)
        if inp["fmt"] == "nc":
            w["style"] = shuffled_nc_style(rng, inp, identity)
            o = w["style"]["order"]
            nonid = nonid or any(o[k] != sorted(o[k]) for k in o)
        else:
            st = gen.default_text_style(inp, None)
            st["shuffle_rows"] = not identity
            st["shuffle_cols"] = not identity
            # the same coordinates written the other documented ways (date + hour columns, 'offset', 'id'); drawn from a
            # separate stream so that the other draws stay what they were
            r2 = random.Random("C02-textstyle-%s-%s-%d" % (inp["name"], identity, len(inp["cells"])))
            if all(t % 3600 == 0 for t in inp["times"]) and r2.random() < 0.5:
                st["time"] = "date+hour"
            st["lead"] = r2.choice(["leadtime", "offset"])
            st["loc"] = r2.choice(["location", "id"])
            if not identity and conflict and len(inp["locs"]) > 1:
                # some rows of one station disagree on its latitude (verif warns, keeps the first): values are still matched by id
                st["conflict"] = {gen.fnum(rng.choice(inp["locs"])[0]): 0.5}
            w["style"] = st
            nonid = nonid or not identity
        paths.append(gen.write_input(w, d, rng))
    return paths, nonid


COMMANDS = [["-m", "mae", "-x", "leadtime"], ["-m", "bias", "-x", "time"], ["-m", "obs", "-x", "location"],
            ["-m", "corr", "-x", "no"], ["-m", "obs", "-x", "month", "-agg", "sum"], ["-m", "fcst", "-x", "lat", "-agg", "max"],
            ["-m", "mae", "-x", "leadtimeday", "-agg", "count"], ["-m", "ets", "-r", "5", "-x", "leadtime"]]


def run_case(ctx, rng, ci):
    import numpy as np
    kind = rng.choice(["det", "det", "prob", "ens"])
    twin_grids = rng.random() < 0.25
    dense_net = kind == "det" and not twin_grids and rng.random() < 0.3       # enough close stations for neighbourhood scores (fss)
    from vmon.props import c04 as _c04
    ds = gen.make_dataset(rng, n_inputs=rng.choice([2, 2, 3, 4]) if not dense_net else rng.choice([2, 3]), prob=kind == "prob",
                          ens=kind == "ens", members=3,
                          miss=rng.choice([0.0, 0.1, 0.2]), sparse=rng.choice([0.0, 0.2]) if not (twin_grids or dense_net) else 0.0, max_t=5 if not dense_net else 3,
                          max_l=4 if not dense_net else 3, max_s=4,
                          some_without_obs=rng.random() < 0.35 and not dense_net, same_dims=twin_grids, fmt="text" if twin_grids else None,
                          leadtime_pool=[0, 1, 2, 3, 4, 5, 6, 9, 12, 15, 18, 24] if twin_grids else None,
                          loc_pool=_c04.FSS_LOCS if dense_net else None, n_locs=rng.randint(6, 9) if dense_net else None)
    if any("obs" not in i["has"] for i in ds["inputs"]):
        ctx.count("families_with_borrowed_observations")
    if (rng.random() < 0.4 or dense_net) and all("obs" in i["has"] for i in ds["inputs"]):
        # files from different sources may store different observations for the same case: each input is scored on its own
        # (not combined with files that have no observations: which file's they borrow is then a matter of command-line order)
        for j, inp in enumerate(ds["inputs"][1:]):
            for c in inp["cells"].values():
                if c.get("obs") is not None and rng.random() < 0.5:
                    c["obs"] = c["obs"] + 0.125 * (j + 1)
        ctx.count("families_with_different_observations")
    F = len(ds["inputs"])
    if twin_grids:
        # two lead-time lists of the same length with the same ends but another value in between
        i1 = ds["inputs"][1]
        pool = [0, 1, 2, 3, 4, 5, 6, 9, 12, 15, 18, 24]
        inner = i1["leadtimes"][1:-1]
        free = [x for x in pool if all(x not in i["leadtimes"] for i in ds["inputs"]) and i1["leadtimes"][0] < x < i1["leadtimes"][-1]]
        if inner and free and len(set(i1["leadtimes"]) & set(ds["inputs"][0]["leadtimes"])) >= 3:
            gen.rename_leadtime(i1, rng.choice(inner), rng.choice(free))
            ctx.count("families_with_same_ends_other_interior")
    base = os.path.join(ctx.workdir, "c%d" % ci)
    pa, _ = write_variant(ds, os.path.join(base, "a"), rng, True)
    conflict = rng.random() < 0.3 and not dense_net      # (neighbourhood scores depend on the station coordinates themselves)
    pb, nonid = write_variant(ds, os.path.join(base, "b"), rng, False, conflict)
    case = {"ds": ds}
    fmts = "".join(i["fmt"][0] for i in ds["inputs"])
    times, leads, locs = refmodel.common_dims(ds)
    # (a) cell by cell, through the permuted files
    fields = [("obs",), ("fcst",)]
    if kind == "prob":
        fields += [("thr", ds["inputs"][0]["thresholds"][0]), ("q", ds["inputs"][0]["quantiles"][-1])]
    if kind == "ens":
        fields += [("ens", 1)]
    for fld in fields:
        for k in range(F):
            data = vutil.build_data(pb)      # fresh dataset per request
            try:
                got = np.array(data.get_scores(vutil.vfield(fld), k), float)
            except SystemExit:
                ctx.violation("get_scores-exit", "field %s input %d" % (fld, k), case)
                continue
            if got.shape != (len(times), len(leads), len(locs)):
                ctx.violation("shape", "get_scores(All) shape %s, common dims %s" % (got.shape, (len(times), len(leads), len(locs))), case)
                continue
            for a, t in enumerate(times):
                for b, l in enumerate(leads):
                    for c, s in enumerate(locs):
                        try:
                            v = refmodel.case_values(ds, k, [fld], t, l, s[0])
                        except KeyError:
                            v = None
                        want = NAN if v is None else v[0]
                        ctx.count("cells_compared")
                        if isinstance(want, tuple):
                            continue
                        if not vutil.num_equal(float(got[a, b, c]), want, 1e-6, 1e-9):
                            ctx.violation("cell-at-wrong-coordinate|%s" % fld[0],
                                          "field %s input %d (%s) at (time %s, lead %s, location %s): verif %r, the file stores %r"
                                          % (fld, k, ds["inputs"][k]["name"], t, l, s[0], float(got[a, b, c]), want), case)
                            break
    ctx.case("%d|%s|cells|%s" % (F, fmts, kind), nonid, {"inputs": gen.ds_summary(ds)})
    # (b) permuted rewrite -> byte-identical csv
    commands = list(COMMANDS)
    if all(i["fmt"] == "text" for i in ds["inputs"]):
        # pre-aggregation windows are found by coordinate too (NetCDF files with permuted dimensions: see C15's known finding)
        commands += [["-m", "mae", "-x", "leadtime", "-T", rng.choice(["6", "12", "24"])],
                     ["-m", "fcst", "-x", "leadtime", "-T", "12", "-Tagg", rng.choice(["max", "sum", "median"])]]
        ctx.count("families_with_T_commands")
    for cmd in commands:
        oa = runner.run_cli(pa + cmd + ["-type", "csv"])
        ob = runner.run_cli(pb + cmd + ["-type", "csv"])
        ctx.count("permutation_pairs")
        ta = runner.strip_ansi(oa.stdout)
        tb = runner.strip_ansi(ob.stdout)
        # the only legitimate difference is the directory in the warning texts
        la = [l for l in ta.split("\n") if not l.startswith("Warning")]
        lb = [l for l in tb.split("\n") if not l.startswith("Warning")]
        if conflict and cmd[3] in ("location", "lat"):
            # which of the conflicting latitudes is kept legitimately depends on the row order: compare the scores only
            la = [",".join(l.split(",")[4:]) for l in la]
            lb = [",".join(l.split(",")[4:]) for l in lb]
        if oa.status != ob.status or la != lb:
            ctx.violation("row-or-dimension-order-matters|%s" % cmd[1], "verif <files> %s -type csv differs after permuting rows/columns/"
                          "dimension entries inside the files:\n%s\nvs\n%s" % (" ".join(cmd), "\n".join(la)[-500:], "\n".join(lb)[-500:]), case)
    ctx.case("%d|%s|perm-inside|%s" % (F, fmts, kind), nonid)
    # (b2) a text file converted with text2nc: the NetCDF copy carries every field at the same (time, lead time, location id)
    tj = [j for j, i in enumerate(ds["inputs"]) if i["fmt"] == "text" and "obs" in i["has"]]
    if tj and ci % 3 == 0:
        import subprocess
        from vmon import common
        j = tj[0]
        conv = os.path.join(base, "conv%d.nc" % j)
        r = subprocess.run([common.PY, os.path.join(common.REPO, "scripts", "text2nc.py"), pb[j], conv], stdout=subprocess.PIPE,
                           stderr=subprocess.PIPE, text=True, env=common.worker_env(), timeout=300)
        ctx.count("text2nc_conversions")
        if r.returncode == 0 and os.path.exists(conv):
            cmds = [["-m", "mae", "-x", "location"], ["-m", "obs", "-x", "location"]]
            inp_j = ds["inputs"][j]
            if inp_j["thresholds"]:
                cmds.append(["-m", "bs", "-r", gen.fnum(inp_j["thresholds"][0]), "-x", "location"])
            if inp_j["quantiles"]:
                cmds.append(["-m", "quantilescore", "-q", gen.fnum(inp_j["quantiles"][-1]), "-x", "location"])
            if inp_j["members"]:
                cmds.append(["-m", "bs", "-r", "6.5", "-x", "location"])
            for cmd in cmds:
                o1 = runner.run_cli([pb[j]] + cmd + ["-type", "csv"])
                o2 = runner.run_cli([conv] + cmd + ["-type", "csv"])
                ctx.count("permutation_pairs")
                if o1.status != "ok" or o2.status != "ok":
                    continue
                h1, r1 = runner.parse_csv(o1.stdout)
                h2, r2 = runner.parse_csv(o2.stdout)
                v1 = {r_[0]: r_[-1] for r_ in r1}
                v2 = {r_[0]: r_[-1] for r_ in r2}

                def close(x, y):
                    try:
                        fx, fy = float(x), float(y)
                    except ValueError:
                        return x == y
                    return (fx != fx and fy != fy) or abs(fx - fy) <= 1e-5 * max(abs(fx), abs(fy), 1e-9) + 1e-7
                if set(v1) != set(v2) or any(not close(v1[k_], v2[k_]) for k_ in v1):
                    ctx.violation("text2nc-copy-differs|%s" % cmd[1], "verif %s: per-location scores of a text file %s and of its text2nc "
                                  "copy %s differ" % (" ".join(cmd), sorted(v1.items())[:6], sorted(v2.items())[:6]), case)
    # (c) file order
    cmd = rng.choice(COMMANDS[:4] + commands[7:])
    if dense_net:
        cmd = ["-m", "fss", "-r", rng.choice(["3", "5", "8"])] + rng.choice([[], ["-x", "leadtime"]])
        ctx.count("fss_file_order_families")
    ref_cols = None
    orders = list(itertools.permutations(range(F)))
    if len(orders) > 24:
        orders = orders[:24]
    for order in orders:
        o = runner.run_cli([pb[i] for i in order] + cmd + ["-type", "csv"])
        ctx.count("file_orders")
        if o.status != "ok":
            ctx.violation("file-order-run-failed", str(o.brief()), case)
            break
        h, rows = runner.parse_csv(o.stdout)
        nd = len(h) - F
        names = h[nd:]
        want_names = [ds["inputs"][i]["name"] for i in order]
        if names != want_names:
            ctx.violation("column-order", "files given as %s but columns are %s" % (want_names, names), case)
            break
        cols = {names[j]: [r[nd + j] for r in rows] for j in range(F)}
        descs = [r[:nd] for r in rows]
        if conflict and cmd[3] in ("location", "lat"):
            descs = [r[:1] for r in rows]      # the first file's (conflicting) latitude is shown: only ids are comparable
        if ref_cols is None:
            ref_cols = (cols, descs)
        else:
            ctx.count("columns_compared", F)
            if cols != ref_cols[0] or descs != ref_cols[1]:
                bad = [n for n in cols if cols[n] != ref_cols[0].get(n)]
                noobs = [i["name"] for i in ds["inputs"] if "obs" not in i["has"]]
                key = "file-order-changes-scores"
                if "-T" in cmd and bad and all(n in noobs for n in bad) and descs == ref_cols[1]:
                    # only inputs WITHOUT observations differ, under -T: they borrow the first obs-bearing file's observations,
                    # which were pre-aggregated over that file's own lead-time grid
                    key = "file-order-changes-scores|T-window-of-borrowed-observations"
                ctx.violation(key, "verif %s: with file order %s the columns of %s differ from the first order"
                              % (" ".join(cmd), want_names, bad), case)
                break
    ctx.case("%d|%s|file-order|%s" % (F, fmts, cmd[1]), F >= 2)
    # (c1) -m obsfcst -q: one column per (quantile level, file), each named after its file - a name keeps its numbers in any order
    qs = ds["inputs"][0]["quantiles"] if kind == "prob" else []
    if len(qs) >= 2 and F >= 2 and all(i["quantiles"] == qs for i in ds["inputs"]) and all("obs" in i["has"] for i in ds["inputs"]):
        qcmd = ["-m", "obsfcst", "-q", ",".join(gen.fnum(q) for q in qs[:3]), "-x", rng.choice(["leadtime", "location", "no"]), "-type", "csv"]
        ref = None
        for order in orders[:6]:
            o = runner.run_cli([pb[i] for i in order] + qcmd)
            ctx.count("file_orders")
            if o.status != "ok":
                if o.status == "crash":
                    ctx.violation("file-order-run-failed", str(o.brief()), case)
                break
            h, rows = runner.parse_csv(o.stdout)
            if len(set(h)) != len(h):
                break
            # (the obs column and a conflicting latitude are the first file's: only the columns named after a file are compared)
            fnames = [i["name"] for i in ds["inputs"]]
            cols = {h[j].strip(): [r[j] for r in rows] for j in range(len(h))
                    if any(h[j].strip() == n or h[j].strip().startswith(n + " ") for n in fnames)}
            ctx.count("obsfcst_quantile_orders")
            if ref is None:
                ref = cols
            elif cols != ref:
                bad = sorted(n for n in cols if cols[n] != ref.get(n))
                ctx.violation("file-order-changes-scores|obsfcst-quantile-columns", "verif %s: with file order %s the columns %s hold other numbers "
                              "than with the first order" % (" ".join(qcmd), [ds["inputs"][i]["name"] for i in order], bad), case)
                break
    # (c2) the -T commands, files in the given and in the reversed order
    noobs = [i["name"] for i in ds["inputs"] if "obs" not in i["has"]]
    for cmd in commands[8:]:
        if twin_grids:
            # each order in a fresh interpreter, as from a shell (state kept at module level by an earlier run cannot hide anything)
            rc1, out1, err1 = runner.run_cli_fresh(pb + cmd + ["-type", "csv"])
            rc2, out2, err2 = runner.run_cli_fresh(list(reversed(pb)) + cmd + ["-type", "csv"])
            ctx.count("fresh_process_runs", 2)
            if rc1 != 0 or rc2 != 0:
                if "Traceback" in (err1 or "") + (err2 or ""):
                    ctx.violation("file-order-run-failed", "fresh process: %s %s" % ((err1 or "")[-300:], (err2 or "")[-300:]), case)
                continue
        else:
            o1 = runner.run_cli(pb + cmd + ["-type", "csv"])
            o2 = runner.run_cli(list(reversed(pb)) + cmd + ["-type", "csv"])
            if o1.status != "ok" or o2.status != "ok":
                continue
            out1, out2 = o1.stdout, o2.stdout
        ctx.count("file_orders", 2)
        h1, r1 = runner.parse_csv(out1)
        h2, r2 = runner.parse_csv(out2)
        nd = len(h1) - F
        c1 = {h1[nd + j]: [r[nd + j] for r in r1] for j in range(F)}
        c2 = {h2[nd + j]: [r[nd + j] for r in r2] for j in range(F)}
        ctx.count("columns_compared", F)
        bad = [n for n in c1 if c1[n] != c2.get(n)]
        if bad:
            key = "file-order-changes-scores"
            if all(n in noobs for n in bad):
                key = "file-order-changes-scores|T-window-of-borrowed-observations"
            ctx.violation(key, "verif %s: with the files in reversed order the columns of %s differ" % (" ".join(cmd), bad), case)


def run_shard(desc, ctx):
    rng = random.Random("C02-%s-%s" % (desc["seed"], desc["k"]))
    for ci in range(desc["n"]):
        run_case(ctx, rng, ci)


def replay(case, ctx):
    ds = case["ds"]

    class R(random.Random):
        pass
    import vmon.gen as g
    orig = g.make_dataset
    try:
        g.make_dataset = lambda *a, **k: ds
        run_case(ctx, random.Random(1), 0)
    finally:
        g.make_dataset = orig
