"""C06 Categorical scores equal their 2x2 contingency-table definitions."""
import os
import random

from vmon import ambient, attach, gen, refmetrics, runner, vutil

RULE = ("EXHAUSTIVE over all 2x2 tables (a,b,c,d) with 1 <= a+b+c+d <= N (N=8 quick: 494 tables, N=12 thorough: "
        "1819 tables), each realised as obs/fcst vectors (values drawn from inside/outside the event incl. values equal "
        "to a threshold, plus extra pairs with a missing member) under each of the 8 bin types, for all 25 categorical "
        "metrics via compute_from_obs_fcst and compute_from_abcd (NumPy integer arguments), with swap (obs<->fcst => "
        "b<->c), complement-event (a<->d, b<->c) and perfect-forecast checks; random tables up to 10^4 cases; a csv "
        "sample through the CLI; conservation contract (a+b+c+d = #valid pairs) on Contingency._compute_abcd during an "
        "ambient CLI workload. signature = (metric, bin type, table class); non-trivial = table has >= 2 non-zero "
        "cells or hits a degenerate (undefined) branch.")
EXHAUSTIVE = "all tables with total <= N for every metric and bin type"
RULE += " " + "The csv part also runs every categorical score along -x no/leadtime/location/time with one event (definition on the slice's table) and several events (mean of the per-event definitions)."
RULE += " " + 'csv part: thresholds at the data extremes, one-decimal thresholds with ties, a station with a single valid pair, the droc0 point against the table.'
RULE += " " + 'Rounds 9-10: part same (one pair of array objects evaluated for all eight bin types in random order); threshold pools of integers, one-decimal and many-decimal values.'
RULE += " " + 'Rounds 11-12: infinite observations / forecasts are not valid pairs; skewed tables with cells of 10^5-10^6 cases.'
ASSUMPTIONS = ["undefined = zero denominator or log of a non-positive number in the textbook formula"]
REQUIRED_COUNTERS = ["obs_fcst_evals", "abcd_evals", "swap_checks", "complement_checks", "perfect_checks",
                     "csv_values", "contract:_compute_abcd"]
ANCHOR_FUNCS = ["Contingency._compute_abcd", "Contingency.compute_from_obs_fcst"]

BINS = list(attach.BIN_TABLE)
NAN = float("nan")


def cat_metrics():
    import verif.metric
    out = {}
    for name, cls in verif.metric.get_all():
        if issubclass(cls, verif.metric.Contingency) and cls.is_valid():
            out[name.lower()] = cls
    return out


def tables(nmax):
    out = []
    for n in range(1, nmax + 1):
        for a in range(n + 1):
            for b in range(n - a + 1):
                for c in range(n - a - b + 1):
                    out.append((a, b, c, n - a - b - c))
    return out


def plan(tier, seed):
    nmax = 8 if tier == "quick" else 12
    shards = [{"part": "tables", "bin": b, "nmax": nmax, "seed": seed, "half": h} for b in BINS for h in (0, 1)]
    shards += [{"part": "random", "seed": seed, "k": k, "n": 40 if tier == "quick" else 400} for k in range(2)]
    shards += [{"part": "cli", "seed": seed, "k": k} for k in range(3 if tier == "quick" else 6)]
    shards += [{"part": "same", "seed": seed, "k": k, "n": 15 if tier == "quick" else 200} for k in range(2)]
    shards += [{"part": "ambient", "seed": seed, "k": k, "n": 120 if tier == "quick" else 1000} for k in range(2)]
    return shards


def in_out_values(b, t0, t1):
    e0, e1 = 4e-6 * max(abs(t0), 1.0), 4e-6 * max(abs(t1), 1.0)
    grid = [t0 - 1.0, t0 - 0.25, t0 - e0, t0, t0 + e0, t0 + 0.25, (t0 + t1) / 2.0, t1 - 0.25, t1 - e1, t1, t1 + e1, t1 + 0.25, t1 + 1.0]
    ins = [x for x in grid if attach.in_documented_event(x, b, t0, t1)]
    outs = [x for x in grid if not attach.in_documented_event(x, b, t0, t1)]
    return ins, outs


def realise(table, b, t0, t1, rng):
    """obs, fcst vectors giving exactly this table under the event, plus unusable pairs."""
    a, bb, c, d = table
    ins, outs = in_out_values(b, t0, t1)
    obs, fc = [], []

    def pick(inside, i):
        src = ins if inside else outs
        return src[i % len(src)]
    k = 0
    for (cnt, fin, oin) in ((a, True, True), (bb, True, False), (c, False, True), (d, False, False)):
        for _ in range(cnt):
            fc.append(pick(fin, k))
            obs.append(pick(oin, k + 1))
            k += 1
    # unusable pairs
    obs += [NAN, ins[0], NAN]
    fc += [outs[0], NAN, NAN]
    idx = list(range(len(obs)))
    rng.shuffle(idx)
    return [obs[i] for i in idx], [fc[i] for i in idx]


def table_class(t):
    nz = sum(1 for x in t if x > 0)
    return "nz%d%s" % (nz, "".join("1" if x else "0" for x in t))


def check_value(ctx, key, got, want, what, case, rel=1e-10, abs_=1e-12):
    if got is None:
        got = NAN
    import numpy as np
    if got is np.ma.masked:
        got = NAN
    got = float(got)
    if got in (float("inf"), float("-inf")):
        ctx.violation("infinite-score|" + key, "%s returned %r (must be NaN when undefined)" % (what, got), case)
        return False
    if not vutil.num_equal(got, want, rel, abs_):
        ctx.violation("formula|" + key, "%s = %r, definition gives %r" % (what, got, want), case)
        return False
    return True


def run_tables(desc, ctx):
    import numpy as np
    import verif.util
    mets = {n: cls() for n, cls in cat_metrics().items()}
    b = desc["bin"]
    rng = random.Random("C06-%s-%s" % (desc["seed"], b))
    ul, lc, uu, uc = attach.BIN_TABLE[b]
    t0, t1 = 2.0, 5.0
    ths = [t0, t1] if (ul and uu) else [t0]
    iv = verif.util.get_intervals(b, np.array(ths))[0]
    comp_bin = {"above": "below=", "below=": "above", "below": "above=", "above=": "below"}.get(b)
    comp_iv = verif.util.get_intervals(comp_bin, np.array(ths))[0] if comp_bin else None
    all_tables = tables(desc["nmax"])
    for ti, tab in enumerate(all_tables):
        if ti % 2 != desc["half"]:
            continue
        obs, fc = realise(tab, b, t0, t1, rng)
        o = np.array(obs)
        f = np.array(fc)
        a, bb, c, d = tab
        tcls = table_class(tab)
        for name, m in mets.items():
            if name not in refmetrics.CATEGORICAL:
                ctx.note("no reference formula for categorical metric %s" % name)
                continue
            want = refmetrics.categorical(name, a, bb, c, d)
            case = {"metric": name, "bin": b, "table": list(tab), "obs": obs, "fcst": fc, "thresholds": ths}
            degenerate = want != want
            ctx.case("%s|%s|%s" % (name, b, tcls), degenerate or sum(1 for x in tab if x) >= 2,
                     {"metric": name, "bin": b, "table": list(tab), "definition": want})
            try:
                got = m.compute_from_obs_fcst(o.copy(), f.copy(), iv)
                ctx.count("obs_fcst_evals")
                check_value(ctx, "%s" % name, got, want, "%s.compute_from_obs_fcst table %s bin %s" % (name, tab, b), case)
                g2 = m.compute_from_abcd(np.int64(a), np.int64(bb), np.int64(c), np.int64(d))
                ctx.count("abcd_evals")
                if isinstance(g2, float) and g2 in (float("inf"), float("-inf")):
                    g2 = NAN   # the public entry point maps infinity to NaN; compute_from_abcd alone may not
                check_value(ctx, "%s" % name, g2, want, "%s.compute_from_abcd%s" % (name, tab), case)
                # swap obs <-> fcst  => b <-> c
                gs = m.compute_from_obs_fcst(f.copy(), o.copy(), iv)
                ctx.count("swap_checks")
                check_value(ctx, "swap|%s" % name, gs, refmetrics.categorical(name, a, c, bb, d),
                            "%s with obs and fcst exchanged, table %s" % (name, tab), case)
                # complement event => a <-> d, b <-> c
                if comp_iv is not None:
                    gc = m.compute_from_obs_fcst(o.copy(), f.copy(), comp_iv)
                    ctx.count("complement_checks")
                    check_value(ctx, "complement|%s" % name, gc, refmetrics.categorical(name, d, c, bb, a),
                                "%s for the complementary event (%s), table %s" % (name, comp_bin, tab), case)
                # perfect forecast
                if bb == 0 and c == 0 and m.perfect_score is not None:
                    gp = m.compute_from_obs_fcst(o.copy(), o.copy(), iv)
                    ctx.count("perfect_checks")
                    gp = NAN if gp is np.ma.masked else float(gp)
                    if gp == gp and not vutil.num_equal(gp, m.perfect_score, 1e-12, 1e-12):
                        ctx.violation("perfect|%s" % name, "%s of a perfect forecast = %r, documented perfect score %r (table %s)"
                                      % (name, gp, m.perfect_score, tab), case)
            except Exception as e:
                ctx.violation("exception|%s|%s" % (name, type(e).__name__), "%s on table %s bin %s raised %r" % (name, tab, b, e), case)
    # no data at all
    for name, m in mets.items():
        try:
            got = m.compute_from_obs_fcst(np.array([]), np.array([]), iv)
            ctx.count("obs_fcst_evals")
            ctx.case("%s|%s|empty" % (name, b), True)
            got = NAN if got is np.ma.masked else float(got)
            if got == got:
                ctx.violation("empty-input|%s" % name, "%s of no data = %r" % (name, got), {"metric": name, "bin": b})
            got = m.compute_from_obs_fcst(np.array([NAN, 1.0]), np.array([3.0, NAN]), iv)
            got = NAN if got is np.ma.masked else float(got)
            if got == got:
                ctx.violation("no-valid-pair|%s" % name, "%s of only unusable pairs = %r" % (name, got), {"metric": name, "bin": b})
        except Exception as e:
            ctx.violation("exception|%s|%s" % (name, type(e).__name__), "%s on empty input raised %r" % (name, e), {"metric": name})


def run_random(desc, ctx):
    import numpy as np
    import verif.util
    mets = {n: cls() for n, cls in cat_metrics().items()}
    rng = random.Random("C06-rand-%s-%s" % (desc["seed"], desc["k"]))
    skewed_tables(desc, ctx, mets, random.Random("C06-skew-%s-%s" % (desc["seed"], desc["k"])))
    for _ in range(desc["n"]):
        b = rng.choice(BINS)
        n = rng.choice([20, 100, 1000, 10000])
        t0 = rng.choice([0.0, 1.0, 2.5])
        t1 = t0 + rng.choice([1.0, 3.0])
        ul, lc, uu, uc = attach.BIN_TABLE[b]
        ths = [t0, t1] if (ul and uu) else [t0]
        iv = verif.util.get_intervals(b, np.array(ths))[0]
        vals = [t0 - 1, t0, (t0 + t1) / 2, t1, t1 + 1]
        if rng.random() < 0.6:
            # the data need not extend beyond the thresholds: a threshold may be the largest / smallest value present
            vals = sorted(rng.sample(vals, rng.randint(2, 4)))
            ctx.count("random_tables_with_threshold_at_data_extreme", 1 if (vals[-1] in ths or vals[0] in ths) else 0)
        vals = vals + [NAN]
        w = [rng.random() for _ in vals]
        obs = rng.choices(vals, w, k=n)
        fc = rng.choices(vals, [rng.random() for _ in vals], k=n)
        a = bb = c = d = 0
        for ov, fv in zip(obs, fc):
            eo = attach.in_documented_event(ov, b, t0, t1)
            ef = attach.in_documented_event(fv, b, t0, t1)
            if eo is None or ef is None:
                continue
            if ef and eo:
                a += 1
            elif ef:
                bb += 1
            elif eo:
                c += 1
            else:
                d += 1
        o = np.array(obs)
        f = np.array(fc)
        for name, m in mets.items():
            want = refmetrics.categorical(name, a, bb, c, d)
            ctx.case("%s|%s|random-n%d" % (name, b, n), True)
            try:
                got = m.compute_from_obs_fcst(o, f, iv)
                ctx.count("obs_fcst_evals")
                check_value(ctx, name, got, want, "%s on %d random pairs (table %s) bin %s" % (name, n, (a, bb, c, d), b),
                            {"metric": name, "bin": b, "table": [a, bb, c, d]})
            except Exception as e:
                ctx.violation("exception|%s|%s" % (name, type(e).__name__), repr(e), {"metric": name, "bin": b})


def skewed_tables(desc, ctx, mets, rng):
    """large samples with a nearly perfect / nearly always-alarming forecast: one or two cells of 10^5-10^6 cases next to cells of
    a handful, so that rates sit within 1e-5 of 0 or 1 without being 0 or 1 (a formula is defined there like anywhere else)"""
    for _ in range(max(4, desc["n"] // 4)):
        small = [rng.choice([0, 1, 1, 2, 3, 7, 40]) for _ in range(4)]
        tab = list(small)
        for pos in rng.sample(range(4), rng.choice([1, 1, 2])):
            tab[pos] = rng.choice([100000, 150000, 400000, 1000000, 2500000])
        a, bb, c, d = tab
        for name, m in mets.items():
            want = refmetrics.categorical(name, a, bb, c, d)
            ctx.case("%s|skewed-large-table" % name, True)
            try:
                got = m.compute_from_abcd(float(a), float(bb), float(c), float(d))
                ctx.count("skewed_table_evals")
                # (logarithms of rates next to 1 cancel: the last digits depend on the order of the operations)
                check_value(ctx, name, got, want, "%s on the table %s" % (name, (a, bb, c, d)), {"metric": name, "table": [a, bb, c, d]},
                            rel=1e-6, abs_=1e-9)
            except Exception as e:
                ctx.violation("exception|%s|%s" % (name, type(e).__name__), repr(e), {"metric": name, "table": [a, bb, c, d]})


def run_same_arrays(desc, ctx):
    """One pair of arrays (the same objects, as a Data object hands them out) evaluated for all eight bin types in turn, values
    tying with the thresholds: each table is that bin type's own, whatever was asked before."""
    import numpy as np
    import verif.util
    mets = {n: cls() for n, cls in cat_metrics().items() if n in ("a", "b", "c", "d", "hit", "fa", "ets", "pc")}
    rng = random.Random("C06-same-%s-%s" % (desc["seed"], desc["k"]))
    for _ in range(desc["n"]):
        t0 = rng.choice([0.0, 1.0, 2.5])
        t1 = t0 + rng.choice([1.0, 3.0])
        vals = [t0 - 1, t0, (t0 + t1) / 2, t1, t1 + 1, NAN]
        n = rng.choice([10, 40, 200])
        obs = rng.choices(vals, k=n)
        fc = rng.choices(vals, k=n)
        o = np.array(obs)
        f = np.array(fc)
        order = list(BINS)
        rng.shuffle(order)
        for b in order:
            ul, lc, uu, uc = attach.BIN_TABLE[b]
            ths = [t0, t1] if (ul and uu) else [t0]
            iv = verif.util.get_intervals(b, np.array(ths))[0]
            a = bb = c = d = 0
            for ov, fv in zip(obs, fc):
                eo = attach.in_documented_event(ov, b, t0, t1)
                ef = attach.in_documented_event(fv, b, t0, t1)
                if eo is None or ef is None:
                    continue
                a += ef and eo
                bb += ef and not eo
                c += (not ef) and eo
                d += (not ef) and (not eo)
            for name, m in mets.items():
                want = refmetrics.categorical(name, a, bb, c, d)
                ctx.count("same_array_evals")
                ctx.case("%s|%s|same-arrays" % (name, b), True)
                try:
                    got = m.compute_from_obs_fcst(o, f, iv)
                    check_value(ctx, "after-other-bin-type|" + name, got, want, "%s for bin %s on arrays already evaluated for other bin "
                                "types (order %s), table %s" % (name, b, order, (a, bb, c, d)), {"metric": name, "bin": b, "order": order})
                except Exception as e:
                    ctx.violation("exception|%s|%s" % (name, type(e).__name__), repr(e), {"metric": name, "bin": b})


def run_cli(desc, ctx):
    rng = random.Random("C06-cli-%s-%s" % (desc["seed"], desc["k"]))
    d = os.path.join(ctx.workdir, "cli")
    os.makedirs(d, exist_ok=True)
    # (one-decimal values that are not exact in single precision: text values are doubles, a value equal to the threshold is a tie)
    pools = [[0.0, 1.0, 2.0, 3.0, 5.0], [0.1, 0.3, 0.7, 0.9, 1.1, 2.3],
             # thresholds with more decimals than any internal rounding keeps: the event is defined by the number as given
             [0.123456789, 1.000000049, 2.000000012, 3.141592653589, 0.999999951]]
    ts = sorted(rng.sample(pools[desc["k"] % 3], 3))
    grid = sorted(set(([ts[0] - 1] if rng.random() < 0.5 else []) + ts + [(ts[0] + ts[1]) / 2, (ts[1] + ts[2]) / 2] +
                      ([ts[2] + 1] if rng.random() < 0.5 else [])))      # a threshold may be the data maximum / minimum
    inp = gen.make_input(rng, "cat.txt", "text", gen.pick_times(rng, 4), [0, 12, 24], gen.LOC_POOL[:3])
    for c in inp["cells"].values():
        c["obs"] = rng.choice(grid + [None])
        c["fcst"] = rng.choice(grid + [None])
    # one station reports a single valid pair: a 2x2 table with total 1 is still a table
    lone = gen.fnum(inp["locs"][-1][0])
    mine = [k_ for k_ in inp["cells"] if k_.split("|")[2] == lone]
    keep = rng.choice(mine)
    for k_ in mine:
        if k_ != keep:
            inp["cells"][k_]["obs"] = None
        else:
            inp["cells"][k_]["obs"] = rng.choice(grid)
            inp["cells"][k_]["fcst"] = rng.choice(grid)
    # a few infinite values (a sensor overflow written as inf / -inf): an infinite observation or forecast is not a valid pair
    if desc["k"] % 2 == 1:
        rinf = random.Random("C06-inf-%s-%s" % (desc["seed"], desc["k"]))
        for k_ in sorted(inp["cells"]):
            if k_ not in mine and rinf.random() < 0.12:
                inp["cells"][k_][rinf.choice(["obs", "fcst"])] = rinf.choice([float("inf"), float("-inf")])
                ctx.count("cli_infinite_values")
    path = gen.write_input(inp, d, None)
    pairs = [(c["obs"], c["fcst"]) for c in inp["cells"].values() if c["obs"] is not None and c["fcst"] is not None
             and abs(c["obs"]) != float("inf") and abs(c["fcst"]) != float("inf")]
    for name in sorted(cat_metrics()):
        b = rng.choice(BINS)
        ul, lc, uu, uc = attach.BIN_TABLE[b]
        ne = len(ts) - 1 if (ul and uu) else len(ts)
        o = runner.run_cli([path, "-m", name, "-r", ",".join(gen.fnum(t) for t in ts), "-b", b, "-x", "threshold", "-type", "csv"])
        if o.status != "ok":
            ctx.violation("cli-failed|%s" % name, str(o.brief()), {"metric": name, "bin": b})
            continue
        h, rows = runner.parse_csv(o.stdout)
        ctx.case("%s|%s|cli" % (name, b), True, {"argv": ["cat.txt", "-m", name, "-r", ts, "-b", b, "-type", "csv"]})
        if len(rows) != ne:
            ctx.violation("cli-rows|%s" % name, "%d rows for %d events" % (len(rows), ne), {"metric": name, "bin": b})
            continue
        for i in range(ne):
            a = bb = c = dd = 0
            for ov, fv in pairs:
                eo = attach.in_documented_event(ov, b, ts[i], ts[i + 1] if (ul and uu) else None)
                ef = attach.in_documented_event(fv, b, ts[i], ts[i + 1] if (ul and uu) else None)
                a += ef and eo
                bb += ef and not eo
                c += (not ef) and eo
                dd += (not ef) and (not eo)
            want = refmetrics.categorical(name, a, bb, c, dd)
            ctx.count("csv_values")
            if not vutil.close_text_number(rows[i][-1], want, 6):
                ctx.violation("cli-value|%s" % name, "-m %s -r %s -b %s row %d: csv %s, definition %r (table %s)"
                              % (name, ts, b, i, rows[i][-1], want, (a, bb, c, dd)), {"metric": name, "bin": b})

        # the deterministic ROC diagram plots the same hit / false alarm rates (it fetches the whole data block itself)
        for bd in (["below", "below=", "above", "above="] if name == "hit" else []):
            import matplotlib.pyplot as mpl
            o = runner.run_cli([path, "-m", "droc0", "-r", gen.fnum(ts[1]), "-b", bd], keep_fig=True)
            if o.status == "ok" and o.fig is not None and o.fig.axes:
                ln = [l_ for l_ in o.fig.axes[0].get_lines() if l_.get_label() == "cat.txt"]
                a = bb = c = dd = 0
                for ov, fv in pairs:
                    eo = attach.in_documented_event(ov, bd, ts[1], None)
                    ef = attach.in_documented_event(fv, bd, ts[1], None)
                    a += ef and eo
                    bb += ef and not eo
                    c += (not ef) and eo
                    dd += (not ef) and (not eo)
                if ln and len(ln[0].get_xdata()) == 3:
                    gx, gy = float(ln[0].get_xdata()[1]), float(ln[0].get_ydata()[1])
                    wfa, whit = refmetrics.categorical("fa", a, bb, c, dd), refmetrics.categorical("hit", a, bb, c, dd)
                    ctx.count("droc_points")
                    if (wfa == wfa and abs(gx - wfa) > 1e-9) or (whit == whit and abs(gy - whit) > 1e-9):
                        ctx.violation("droc0-point|%s" % bd, "-m droc0 -r %s -b %s plots (false alarm rate, hit rate) = (%r, %r); the table %s gives "
                                      "(%r, %r)" % (ts[1], bd, gx, gy, (a, bb, c, dd), wfa, whit), {"metric": "droc0", "bin": bd})
            mpl.close("all")
        # the same score along another axis: one event -> the definition on that slice's table; several events -> verif
        # averages the per-event scores ("Average all thresholds")
        from vmon import refmodel
        ds1 = {"inputs": [inp], "clim": None}
        axis = rng.choice(["no", "leadtime", "location", "location", "time"])
        sl = refmodel.slices(ds1, 0, [("obs",), ("fcst",)], axis)
        for tsub in ([ts[0], ts[1]] if (ul and uu) else [ts[rng.randrange(3)]], ts):
            nev = len(tsub) - 1 if (ul and uu) else len(tsub)
            o = runner.run_cli([path, "-m", name, "-r", ",".join(gen.fnum(t) for t in tsub), "-b", b, "-x", axis, "-type", "csv"])
            if o.status != "ok":
                ctx.violation("cli-failed|%s|other-axis" % name, str(o.brief()), {"metric": name, "bin": b, "axis": axis})
                continue
            h, rows = runner.parse_csv(o.stdout)
            ctx.case("%s|%s|cli-%s|events=%d" % (name, b, axis, nev), True)
            if len(rows) != len(sl):
                ctx.violation("cli-rows|%s" % name, "%d rows for %d slices" % (len(rows), len(sl)), {"metric": name, "bin": b, "axis": axis})
                continue
            for r, (lab, cs) in zip(rows, sl):
                vals = []
                for i in range(nev):
                    a = bb = c = dd = 0
                    for ov, fv in cs:
                        if abs(ov) == float("inf") or abs(fv) == float("inf"):
                            continue        # not a valid pair
                        eo = attach.in_documented_event(ov, b, tsub[i], tsub[i + 1] if (ul and uu) else None)
                        ef = attach.in_documented_event(fv, b, tsub[i], tsub[i + 1] if (ul and uu) else None)
                        a += ef and eo
                        bb += ef and not eo
                        c += (not ef) and eo
                        dd += (not ef) and (not eo)
                    vals.append(refmetrics.categorical(name, a, bb, c, dd) if cs else float("nan"))
                ctx.count("csv_values_other_axis")
                if any(v is None or v != v or abs(v) == float("inf") for v in vals):
                    if nev > 1:
                        continue        # an undefined term: the average is not pinned down
                    want = vals[0]
                else:
                    want = sum(vals) / nev
                if not vutil.close_text_number(r[-1], want, 6) and not (want == want and abs(float(r[-1]) - want) < 1e-9):
                    ctx.violation("cli-value-other-axis|%s" % name, "-m %s -r %s -b %s -x %s slice %s: csv %s, definition %r"
                                  % (name, tsub, b, axis, lab, r[-1], want), {"metric": name, "bin": b, "axis": axis})


def run_shard(desc, ctx):
    part = desc["part"]
    if part == "tables":
        run_tables(desc, ctx)
    elif part == "random":
        run_random(desc, ctx)
    elif part == "cli":
        run_cli(desc, ctx)
    elif part == "same":
        run_same_arrays(desc, ctx)
    else:
        attach.attach_events(ctx)
        ambient.run(ctx, "c06-%s-%s" % (desc["seed"], desc["k"]), desc["n"])
        attach.detach_all()


def replay(case, ctx):
    import numpy as np
    import verif.util
    if not case or "table" not in case or "obs" not in case:
        run_tables({"bin": (case or {}).get("bin", "above"), "nmax": 6, "seed": 0, "half": 0}, ctx)
        return
    mets = cat_metrics()
    m = mets[case["metric"]]()
    iv = verif.util.get_intervals(case["bin"], np.array(case["thresholds"]))[0]
    o = np.array([NAN if v in (None, "nan") else v for v in case["obs"]], float)
    f = np.array([NAN if v in (None, "nan") else v for v in case["fcst"]], float)
    a, b, c, d = case["table"]
    want = refmetrics.categorical(case["metric"], a, b, c, d)
    ctx.case("replay", True)
    check_value(ctx, case["metric"], m.compute_from_obs_fcst(o, f, iv), want, "replay %s" % case["metric"], case)
    check_value(ctx, "swap|" + case["metric"], m.compute_from_obs_fcst(f, o, iv),
                refmetrics.categorical(case["metric"], a, c, b, d), "replay swap", case)
