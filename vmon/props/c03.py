"""C03 Verified dimensions = intersection of inputs and the user's subset."""
import os
import random

from vmon import gen, refmodel, runner, vutil

RULE = ("1-3 inputs (+ optional climatology file) with differing coverage, text and NetCDF; option subsets of size 0-6 "
        "drawn from -t -d -tod -o -l -lx -latrange -lonrange -elevrange -obsrange with values of the classes: present, "
        "absent, range end point equal to a station's coordinate, reversed range, strict subset of dates/hours, "
        "everything excluded. Observed: --list-times / --list-locations, Data.times/leadtimes/locations (ascending, "
        "unique, non-missing, subset of every input), csv row descriptors and `-m mae -agg count` (obs range). Oracle: "
        "refmodel selection (ranges inclusive; -lx last; -d whole UTC days; -tod hours). An empty selection must end in "
        "an error exit or all-NaN output. signature = (sorted option subset, per-option value class); non-trivial = the "
        "selection is a strict non-empty subset, or empty.")
RULE += " " + "The MAE of every csv slice is also compared with the selected cases' (not only the counts)."
RULE += " " + 'Option values are partly written in range syntax; long series (25-45 days, several runs a day) with long -d lists; empty selections under several aggregators; shards rotate the process time zone.'
RULE += " " + 'Rounds 9-10: duplicate ids in -l combined with the range options.'
RULE += " " + 'Rounds 11-12: a station, time or lead time whose every data column is missing in one file still takes part in the selection.'
ASSUMPTIONS = ["location metadata is consistent across files (the first file's is used for range options)",
               "initialisation times on whole hours; coordinates exactly representable in float32"]
REQUIRED_COUNTERS = ["option_sets", "list_checks", "data_attr_checks", "csv_checks", "empty_selection_checks", "strict_subsets"]
ROTATE_TZ = True       # dates, times of day and time labels are UTC whatever the time zone of the machine
ANCHOR_FUNCS = ["Data.__init__", "Data._get_common_indices"]


def plan(tier, seed):
    n = 20 if tier == "quick" else 200
    return [{"seed": seed, "k": k, "n": n} for k in range(16)]


def gen_opts(rng, ds):
    times, leads, locs = refmodel.common_dims(ds)
    inputs = refmodel.all_inputs(ds)
    all_times = sorted(set(t for i in inputs for t in i["times"]))
    all_leads = sorted(set(l for i in inputs for l in i["leadtimes"]))
    all_locs = {l[0]: l for i in inputs for l in i["locs"]}
    names = rng.sample(["times", "dates", "tods", "leadtimes", "locations", "locations_x", "latrange", "lonrange", "elevrange", "obsrange"],
                       rng.choice([0, 1, 1, 2, 2, 3, 4, 6]))
    opts, cls = {}, {}

    def pick(present, universe, absent):
        r = rng.random()
        if r < 0.55 and present:
            return sorted(rng.sample(present, rng.randint(1, len(present)))), "present"
        if r < 0.8 and universe:
            return sorted(set(rng.sample(universe, rng.randint(1, len(universe))) + [absent])), "mixed"
        return [absent], "absent"
    for n in names:
        if n == "times":
            opts[n], cls[n] = pick(times, all_times, 12345600)
        elif n == "leadtimes":
            opts[n], cls[n] = pick(leads, all_leads, 7.0)
        elif n == "locations":
            opts[n], cls[n] = pick([l[0] for l in locs], list(all_locs), 424242)
            if rng.random() < 0.3:
                # the same id listed twice (e.g. overlapping ranges 1:2,2:3) selects it once
                opts[n] = opts[n] + [rng.choice(opts[n])]
                cls[n] += "+dup"
        elif n == "locations_x":
            if rng.random() < 0.15:
                opts[n], cls[n] = [l[0] for l in locs], "all"
            else:
                opts[n], cls[n] = pick([l[0] for l in locs], list(all_locs), 424242)
        elif n == "dates":
            days = sorted(set(refmodel.date_of(t) for t in all_times))
            opts[n], cls[n] = pick(sorted(set(refmodel.date_of(t) for t in times)), days, 19810405)
        elif n == "tods":
            hrs = sorted(set((t % 86400) // 3600 for t in all_times))
            opts[n], cls[n] = pick(sorted(set((t % 86400) // 3600 for t in times)), hrs, 13 if 13 not in hrs else 14)
        elif n in ("latrange", "lonrange", "elevrange"):
            col = {"latrange": 1, "lonrange": 2, "elevrange": 3}[n]
            vals = sorted(l[col] for l in inputs[0]["locs"])
            r = rng.random()
            if r < 0.45:
                a, b = sorted([rng.choice(vals), rng.choice(vals)])
                opts[n], cls[n] = [a, b], "endpoints"
            elif r < 0.7:
                opts[n], cls[n] = [vals[0] - 1, vals[-1] + 1], "all"
            elif r < 0.85:
                a = rng.choice(vals)
                opts[n], cls[n] = [a + 0.125, a + 0.25] if a + 0.25 not in vals and a + 0.125 not in vals else [a, a], "nothing-or-one"
            else:
                opts[n], cls[n] = [vals[-1], vals[0]] if vals[-1] != vals[0] else [vals[0] + 1, vals[0]], "reversed"
        elif n == "obsrange":
            ov = sorted(set(c["obs"] for i in inputs for c in i["cells"].values() if c.get("obs") is not None))
            if not ov:
                continue
            r = rng.random()
            if r < 0.6:
                a, b = sorted([rng.choice(ov), rng.choice(ov)])
                opts[n], cls[n] = [a, b], "endpoints"
            elif r < 0.8:
                opts[n], cls[n] = [ov[0] - 1, ov[-1] + 1], "all"
            else:
                opts[n], cls[n] = [ov[-1] + 1, ov[-1] + 2], "nothing"
    return opts, cls


def make_long(rng):
    """A long series: 25-45 consecutive days with 1, 2 or 4 runs a day (one or two files, the second with gaps)."""
    day0 = rng.choice([15340, 15675, 16430, 10950, 19700]) + rng.randint(0, 40)
    ndays = rng.randint(25, 45)
    hours = rng.choice([[0, 12], [0, 12], [0, 6, 12, 18], [0]])
    times = [(day0 + d_) * 86400 + h * 3600 for d_ in range(ndays) for h in hours]
    locs = rng.sample(gen.LOC_POOL, rng.randint(1, 2))
    inputs = []
    truth = {}
    for k in range(rng.choice([1, 2])):
        ts = times if k == 0 else [t for t in times if rng.random() < 0.9]
        inputs.append(gen.make_input(rng, "in%d.txt" % k, "text", ts, [0, 12], locs, miss=rng.choice([0.0, 0.1]), truth=truth))
    return {"inputs": inputs, "clim": None}


def gen_opts_long(rng, ds):
    """Long -d lists / ranges (the days of the file partly requested), possibly with -tod."""
    times, leads, locs = refmodel.common_dims(ds)
    days = sorted(set(refmodel.date_of(t) for t in times))
    n = rng.randint(min(20, len(days) - 2), len(days) - 2)
    i0 = rng.randint(1, len(days) - n - 1) if len(days) - n - 1 >= 1 else 0
    block = days[i0:i0 + n]
    if rng.random() < 0.4:
        block = [d_ for d_ in block if rng.random() < 0.9]      # a long list with holes
    opts, cls = {"dates": block}, {"dates": "long"}
    if rng.random() < 0.4:
        hrs = sorted(set((t % 86400) // 3600 for t in times))
        opts["tods"] = sorted(rng.sample(hrs, rng.randint(1, len(hrs))))
        cls["tods"] = "present"
    if rng.random() < 0.2:
        opts["leadtimes"] = [rng.choice(leads)]
        cls["leadtimes"] = "present"
    return opts, cls


def run_case(ctx, rng, ci, long=False):
    import numpy as np
    global gen_opts
    if long:
        ds = make_long(rng)
        ctx.count("long_series_cases")
        saved = gen_opts
        gen_opts = gen_opts_long
        try:
            return _run_case(ctx, rng, ci, ds, reps=3)
        finally:
            gen_opts = saved
    ds = gen.make_dataset(rng, n_inputs=rng.choice([1, 2, 3]), clim=rng.random() < 0.25, miss=rng.choice([0.0, 0.1, 0.25]),
                          max_t=6, max_l=5, max_s=5, hours=rng.choice([None, [0, 6, 12, 18], [0, 12]]))
    blank_one_coordinate(ctx, ds, random.Random("C03-blank-%d-%d" % (ci, len(ds["inputs"][0]["cells"]))))
    return _run_case(ctx, rng, ci, ds)


def blank_one_coordinate(ctx, ds, r):
    """a station that was down (or a run / lead time that produced nothing) in one file: its rows are there, every data column
    is missing. It is still a station / time / lead time of that file and takes part in the selection (own random stream)."""
    if r.random() >= 0.3:
        return
    inp = r.choice(ds["inputs"])
    dim = r.choice([2, 2, 0, 1])
    vals = [inp["times"], inp["leadtimes"], [l[0] for l in inp["locs"]]][dim]
    v = gen.fnum(r.choice(vals)) if dim else str(r.choice(vals))
    for k, c in inp["cells"].items():
        if k.split("|")[dim] == v:
            for f in ("obs", "fcst", "pit"):
                if f in c:
                    c[f] = None
            for f in ("p", "q", "e"):
                if c.get(f):
                    c[f] = [None] * len(c[f])
            if c.get("o"):
                c["o"] = {n: None for n in c["o"]}
    ctx.count("datasets_with_an_all_missing_%s_in_one_file" % ["time", "leadtime", "location"][dim])


def _run_case(ctx, rng, ci, ds, reps=7):
    import numpy as np
    d = os.path.join(ctx.workdir, "c%d" % ci)
    os.makedirs(d, exist_ok=True)
    paths, cpath = gen.materialize(ds, d, rng if rng.random() < 0.5 else None)
    F = len(ds["inputs"])
    cflag = ["-c", cpath] if cpath else []
    for _ in range(reps):
        opts, cls = gen_opts(rng, ds)
        case = {"ds": ds, "opts": opts}
        times, leads, locs = refmodel.common_dims(ds, opts)
        full = refmodel.common_dims(ds)
        empty_dims = not times or not leads or not locs
        strict = (len(times), len(leads), len(locs)) != (len(full[0]), len(full[1]), len(full[2]))
        sel_opts = {k: v for k, v in opts.items() if k != "obsrange"}
        ctx.count("option_sets")
        if strict and not empty_dims:
            ctx.count("strict_subsets")
        sig = "+".join("%s:%s" % (k, cls[k]) for k in sorted(cls)) or "none"
        ctx.case(sig, strict or empty_dims or "obsrange" in opts,
                 {"inputs": gen.ds_summary(ds), "options": vutil.opts_to_argv(opts), "selected": [len(times), len(leads), len(locs)]})
        oargv = vutil.opts_to_argv(opts, rng)
        # --- API: Data attributes
        try:
            data = vutil.build_data(paths, cpath, opts)
            api_exit = False
        except SystemExit:
            api_exit = True
        except Exception as e:
            ctx.violation("data-exception|%s" % type(e).__name__, "Data(...) with %s raised %r" % (oargv, e), case)
            continue
        ctx.count("data_attr_checks")
        if api_exit:
            if not empty_dims:
                ctx.violation("nonempty-selection-rejected", "options %s select %d times, %d lead times, %d locations but verif stopped "
                              "with an error" % (oargv, len(times), len(leads), len(locs)), case)
            else:
                ctx.count("empty_selection_checks")
            continue
        gt = [int(x) for x in data.times]
        gl = [float(x) for x in data.leadtimes]
        gs = [float(x.id) for x in data.locations]
        for name, got in (("times", gt), ("leadtimes", gl), ("locations", gs)):
            if got != sorted(set(got)) or any(x != x for x in got):
                ctx.violation("dims-not-ascending-unique|%s" % name, "%s = %s" % (name, got), case)
        if gt != times or gl != [float(x) for x in leads] or gs != [float(l[0]) for l in locs]:
            which = "times" if gt != times else "leadtimes" if gl != [float(x) for x in leads] else "locations"
            opt_sig = "+".join(sorted(sel_opts)) or "none"
            ctx.violation("selection-mismatch|%s|%s" % (which, opt_sig),
                          "options %s: verif verifies times %s leadtimes %s locations %s; documented selection is times %s leadtimes %s "
                          "locations %s" % (oargv, gt, gl, gs, times, leads, [l[0] for l in locs]), case)
            continue
        for inp in refmodel.all_inputs(ds):
            if not set(gt) <= set(inp["times"]) or not set(gl) <= set(float(x) for x in inp["leadtimes"]) or \
                    not set(gs) <= set(float(l[0]) for l in inp["locs"]):
                ctx.violation("verified-dim-absent-from-input", "a verified coordinate is absent from %s" % inp["name"], case)
        # --- --list-*
        o = runner.run_cli(paths + cflag + oargv + ["--list-times"])
        ctx.count("list_checks")
        if o.status == "ok":
            got = [l.strip() for l in runner.strip_ansi(o.stdout).split("\n") if l.strip() and not l.startswith("Warning")]
            if got != ["%d" % t for t in times]:
                ctx.violation("list-times", "%s --list-times -> %s, documented %s" % (oargv, got, times), case)
        elif not empty_dims:
            ctx.violation("list-times-failed", str(o.brief()), case)
        o = runner.run_cli(paths + cflag + oargv + ["--list-locations"])
        ctx.count("list_checks")
        if o.status == "ok":
            got = [l.split() for l in runner.strip_ansi(o.stdout).split("\n") if l.strip() and not l.startswith("Warning")][1:]
            if [float(g[0]) for g in got] != [float(l[0]) for l in locs]:
                ctx.violation("list-locations", "%s --list-locations -> %s, documented %s" % (oargv, [g[0] for g in got], [l[0] for l in locs]), case)
        elif not empty_dims:
            ctx.violation("list-locations-failed", str(o.brief()), case)
        # --- csv: descriptors and counts (obs range enters here)
        if any(k in opts for k in ("dates", "tods", "times")):
            axis = rng.choice(["time", "day", "week", "month", "year", "timeofday", "monthofyear", "dayofmonth", "leadtime"])
        else:
            axis = rng.choice(["time", "leadtime", "location", "no", "day", "month", "timeofday", "leadtimeday", "elev"])
        o = runner.run_cli(paths + cflag + oargv + ["-m", "mae", "-agg", "count", "-x", axis, "-type", "csv"])
        ctx.count("csv_checks")
        fields = [("obs",), ("fcst",)]
        if o.status == "crash":
            ctx.violation("csv-crash|%s@%s" % (o.exc_type, o.where), "verif %s -m mae -agg count -x %s\n%s" % (oargv, axis, o.tb), case)
            continue
        ref = [refmodel.slices(ds, k, fields, axis, opts) for k in range(F)]
        total = sum(len(s[1]) for s in ref[0])
        if o.status == "exit":
            if total > 0 and not empty_dims:
                ctx.violation("nonempty-selection-rejected|csv", "%s -x %s: %d valid cases but verif exited: %s"
                              % (oargv, axis, total, runner.strip_ansi(o.stdout)[-200:]), case)
            else:
                ctx.count("empty_selection_checks")
            continue
        h, rows = runner.parse_csv(o.stdout)
        nd = len(h) - F
        if len(rows) != len(ref[0]):
            ctx.violation("csv-rows|%s" % axis, "%s -x %s: %d rows, documented %d slices" % (oargv, axis, len(rows), len(ref[0])), case)
            continue
        for i, row in enumerate(rows):
            for k in range(F):
                n = len(ref[k][i][1])
                g = row[nd + k]
                if not ((n == 0 and g.lower() in ("nan", "0")) or (n > 0 and g == "%g" % n)):
                    ctx.violation("csv-count|%s" % ("obsrange" if "obsrange" in opts else "selection"),
                                  "%s -m mae -agg count -x %s row %d input %d: %s cases, documented %d" % (oargv, axis, i, k, g, n), case)
        if total > 0:
            # the scores themselves (not only how many cases): mean absolute error per slice on the selected cases
            o3 = runner.run_cli(paths + cflag + oargv + ["-m", "mae", "-x", axis, "-type", "csv"])
            ctx.count("csv_value_checks")
            if o3.status == "ok":
                h3, rows3 = runner.parse_csv(o3.stdout)
                for i, row in enumerate(rows3[:len(ref[0])]):
                    for k in range(F):
                        pairs = ref[k][i][1]
                        want = sum(abs(a - b) for a, b in pairs) / len(pairs) if pairs else float("nan")
                        if not vutil.close_text_number(row[nd + k], want, 6):
                            ctx.violation("csv-value|%s" % ("obsrange" if "obsrange" in opts else "selection"),
                                          "%s -m mae -x %s row %d input %d: %s, the selected cases give %r"
                                          % (oargv, axis, i, k, row[nd + k], want), case)
            else:
                ctx.violation("csv-value-run-failed", "%s -m mae -x %s: %s" % (oargv, axis, o3.brief()), case)
        if total == 0:
            ctx.count("empty_selection_checks")
            ecmd = rng.choice([["-m", "mae"], ["-m", "obs", "-agg", "sum"], ["-m", "fcst", "-agg", "max"], ["-m", "obs", "-agg", "count"],
                               ["-m", "rmse", "-agg", "median"], ["-m", "fcst", "-agg", "sum"], ["-m", "bias", "-agg", "min"]])
            efields = [("obs",)] if ecmd[1] == "obs" else [("fcst",)] if ecmd[1] == "fcst" else fields
            try:
                if sum(len(s_[1]) for k_ in range(F) for s_ in refmodel.slices(ds, k_, efields, axis, opts)) > 0:
                    ecmd = ["-m", "mae"]          # (-m obs / -m fcst keep cases whose other value is missing)
            except KeyError:
                ecmd = ["-m", "mae"]
            o2 = runner.run_cli(paths + cflag + oargv + ecmd + ["-x", axis, "-type", "csv"])
            if o2.status == "ok" and ecmd[-1] == "count":
                h2, rows2 = runner.parse_csv(o2.stdout)
                if any(c.lower() not in ("nan", "0") for r in rows2 for c in r[len(h2) - F:]):
                    ctx.violation("empty-selection-gives-number", "%s selects no valid case but %s printed a count:\n%s"
                                  % (oargv, " ".join(ecmd), runner.strip_ansi(o2.stdout)[-300:]), case)
            elif o2.status == "ok":
                h2, rows2 = runner.parse_csv(o2.stdout)
                if any(c.lower() != "nan" for r in rows2 for c in r[len(h2) - F:]):
                    ctx.violation("empty-selection-gives-number", "%s selects no valid case but %s printed a number:\n%s"
                                  % (oargv, " ".join(ecmd), runner.strip_ansi(o2.stdout)[-300:]), case)
            elif o2.status == "crash":
                ctx.violation("empty-selection-crash|%s@%s" % (o2.exc_type, o2.where), o2.tb, case)


def run_shard(desc, ctx):
    rng = random.Random("C03-%s-%s" % (desc["seed"], desc["k"]))
    for ci in range(desc["n"]):
        run_case(ctx, rng, ci, long=(ci % 10 == 9))


def replay(case, ctx):
    import vmon.props.c03 as me
    ds, opts = case["ds"], case["opts"]
    og, om = me.gen_opts, gen.make_dataset
    try:
        gen.make_dataset = lambda *a, **k: ds
        me.gen_opts = lambda rng, d: (opts, {k: "replay" for k in opts})
        for i in refmodel.all_inputs(ds):
            i["style"] = {}
        run_case(ctx, random.Random(3), 0)
    finally:
        me.gen_opts, gen.make_dataset = og, om
