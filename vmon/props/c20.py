"""C20 Helper scripts transform files as documented."""
import os
import random
import subprocess

from vmon import common, gen, refmetrics, vutil

RULE = ("the scripts run as real subprocesses on generated text and NetCDF inputs and their NetCDF output is read back with "
        "netCDF4. accumulate: every -w (1..N and > N), with/without -i, -x leadtime|time, and no -w (cumulative): each "
        "series must be the trailing sum over w steps (first w-1 steps missing; a missing value inside the window makes it "
        "missing unless -i, which counts it as 0), identically for obs and fcst; one large input (>= 50x60x30) per run so that "
        "SciPy chooses its FFT convolution. ens2prob: cdf in [0,1], non-decreasing in the threshold and equal to the fraction "
        "of present members below it, quantiles non-decreasing in the level, within the ensemble range, PIT = fraction of "
        "members below the observation for complete ensembles and missing where the observation is missing; obs/fcst "
        "preserved. expandverif: each observation placed at every requested (initialisation time, lead time) whose valid time "
        "matches, missing elsewhere. All: times, lead times and location metadata preserved. signature = (script, option set, "
        "input format, missing pattern class); non-trivial = the output differs from the input in the transformed variable.")
RULE += " " + 'expandverif also runs on quarter-hourly lead times with requested times that are near but not on an observation time.'
RULE += " " + 'ens2prob on one-decimal text values with observation-member ties.'
RULE += " " + 'Rounds 9-10: station identifiers beyond 2**24.'
RULE += " " + "Rounds 13-14: accumulate on a year of daily runs and on a 400-step lead-time series with windows of 7 and 30; ens2prob columns are matched to the output file's own threshold / quantile coordinates, which must hold exactly the requested values."
ASSUMPTIONS = ["initialisation times before 2038 (the scripts store time as int32)",
               "observations in a file agree for equal valid times (expandverif takes the first match)"]
REQUIRED_COUNTERS = ["accumulate_runs", "accumulate_cells", "ens2prob_runs", "ens2prob_cells", "expandverif_runs", "expandverif_cells",
                     "large_fft_inputs"]
ANCHOR_FUNCS = []
TIMEOUT = {"quick": 1500, "thorough": 7200}

NAN = float("nan")


def plan(tier, seed):
    n = 4 if tier == "quick" else 70
    shards = [{"part": "accumulate", "seed": seed, "k": k, "n": n} for k in range(5)]
    shards += [{"part": "accumulate-large", "seed": seed, "k": 0}]
    shards += [{"part": "ens2prob", "seed": seed, "k": k, "n": n} for k in range(5)]
    shards += [{"part": "expandverif", "seed": seed, "k": k, "n": n} for k in range(5)]
    return shards


def times_before_2038(rng, n, hours=(0,)):
    out = set()
    while len(out) < n:
        day = rng.choice([10957, 11016, 11322, 12477, 15705, 16070, 17165, 18321, 19000]) + rng.randint(-3, 3)
        out.add(day * 86400 + rng.choice(list(hours)) * 3600)
    return sorted(out)


def run_script(name, argv):
    script = os.path.join(common.REPO, "scripts", name)
    return subprocess.run([common.PY, script] + argv, stdout=subprocess.PIPE, stderr=subprocess.PIPE, text=True,
                          env=common.worker_env(), timeout=600)


def read_nc(path):
    import netCDF4
    import numpy as np
    f = netCDF4.Dataset(path)
    out = {}
    for name in f.variables:
        v = f.variables[name][:]
        a = np.ma.filled(np.ma.masked_invalid(np.ma.masked_array(v).astype(float)), np.nan)
        a = np.array(a, float)
        a[(a > 1e30) | (a == -999)] = np.nan
        out[name] = a
    f.close()
    return out


def check_dims(ctx, script, out, inp, case):
    import numpy as np
    ok = True
    if list(out["time"]) != [float(t) for t in inp["times"]]:
        ctx.violation("%s-times-not-preserved" % script, "%s vs %s" % (list(out["time"]), inp["times"]), case)
        ok = False
    if not np.allclose(out["leadtime"], np.array(inp["leadtimes"], float)):
        ctx.violation("%s-leadtimes-not-preserved" % script, "%s vs %s" % (list(out["leadtime"]), inp["leadtimes"]), case)
        ok = False
    return ok


# station identifiers beyond 2**24 (region + station codes): not representable in single precision
BIG_POOL = gen.LOC_POOL + [[47110015, 59.5, 9.75, 0.0], [16777217, 61.25, 11.0, 250.0], [20000003, 70.0, -20.0, 1200.5], [99999999, -33.5, 151.25, 12.0]]


def check_locs(ctx, script, out, ids, locmeta, case):
    import numpy as np
    for j, i in enumerate(out["location"].tolist()):
        if i not in locmeta:
            ctx.violation("%s-location-ids" % script, "id %r not in the input" % i, case)
            return False
        l = locmeta[i]
        if abs(out["lat"][j] - l[1]) > 1e-4 or abs(out["lon"][j] - l[2]) > 1e-4 or abs(out["altitude"][j] - l[3]) > 1e-3:
            ctx.violation("%s-location-metadata" % script, "location %r: (%r,%r,%r) vs %s" % (i, out["lat"][j], out["lon"][j], out["altitude"][j], l), case)
            return False
    return len(out["location"]) == len(locmeta)


def series(inp, field, t_fixed, l_fixed, s, axis):
    """values along the axis for fixed other coordinates"""
    grid = inp["leadtimes"] if axis == "leadtime" else inp["times"]
    vals = []
    for g in grid:
        key = gen.ck(t_fixed if axis == "leadtime" else g, g if axis == "leadtime" else l_fixed, s)
        c = inp["cells"].get(key)
        vals.append(None if c is None else c.get(field))
    return vals


def expected_accum(vals, w, ignore):
    n = len(vals)
    out = []
    if w is None:
        run = 0.0
        dead = False
        for v in vals:
            if v is None:
                if ignore:
                    out.append(run)
                else:
                    dead = True
                    out.append(None)
            else:
                run += v
                out.append(None if dead else run)
        return out
    if w == 1:
        return [v for v in vals]
    for j in range(n):
        if j < w - 1:
            out.append(None)
            continue
        win = vals[j - w + 1:j + 1]
        if any(v is None for v in win):
            out.append(sum(v for v in win if v is not None) if ignore else None)
        else:
            out.append(sum(win))
    return out


def accumulate_case(ctx, inp, d, w, ignore, axis, tag, fmt):
    import numpy as np
    inp = dict(inp, fmt=fmt, name="in." + ("nc" if fmt == "nc" else "txt"), style={})
    ipath = gen.write_input(inp, d, None)
    opath = os.path.join(d, "acc-%s.nc" % tag)
    argv = [ipath, opath] + (["-w", str(w)] if w is not None else []) + (["-i"] if ignore else []) + ["-x", axis]
    r = run_script("accumulate.py", argv)
    ctx.count("accumulate_runs")
    n_axis = len(inp["leadtimes"] if axis == "leadtime" else inp["times"])
    case = {"inp": inp if len(inp["cells"]) < 400 else {"dims": [len(inp["times"]), len(inp["leadtimes"]), len(inp["locs"])]},
            "argv": argv[2:], "fmt": fmt}
    anymiss = any(c.get("obs") is None or c.get("fcst") is None for c in inp["cells"].values())
    sig = "accumulate|w%s|i%d|%s|%s|%s" % ("none" if w is None else ("1" if w == 1 else "gtN" if w > n_axis else "mid"), ignore, axis, fmt,
                                           "missing" if anymiss else "complete")
    if w is not None and w > n_axis:
        ctx.case(sig, True, {"argv": argv[2:]})
        if r.returncode == 0:
            ctx.violation("accumulate-window-longer-than-axis-accepted", "window %d on an axis of %d entries exited 0" % (w, n_axis), case)
        elif "Traceback" in r.stderr:
            ctx.violation("accumulate-traceback", r.stderr[-400:], case)
        return
    if r.returncode != 0 or not os.path.exists(opath):
        ctx.violation("accumulate-failed", "accumulate %s: exit %d %s" % (argv[2:], r.returncode, r.stderr[-400:]), case)
        return
    out = read_nc(opath)
    ctx.case(sig, w != 1, {"argv": argv[2:], "dims": [len(inp["times"]), len(inp["leadtimes"]), len(inp["locs"])]})
    if not check_dims(ctx, "accumulate", out, inp, case):
        return
    locmeta = {float(l[0]): l for l in inp["locs"]}
    if not check_locs(ctx, "accumulate", out, None, locmeta, case):
        return
    sidx = {float(v): j for j, v in enumerate(out["location"].tolist())}
    bad = 0
    for field in ("obs", "fcst"):
        if field not in inp["has"]:
            continue
        arr = out[field]
        others = inp["times"] if axis == "leadtime" else inp["leadtimes"]
        for oi, ov in enumerate(others):
            for loc in inp["locs"]:
                vals = series(inp, field, ov, ov, loc[0], axis)
                want = expected_accum(vals, w, ignore)
                for gi, wv in enumerate(want):
                    a, b = (oi, gi) if axis == "leadtime" else (gi, oi)
                    g = float(arr[a, b, sidx[float(loc[0])]])
                    ctx.count("accumulate_cells")
                    if not vutil.num_equal(g, NAN if wv is None else wv, 2e-6, 1e-4):
                        bad += 1
                        if bad <= 2:
                            kind = "missing-spread" if (wv is not None and g != g) else "missing-used" if (wv is None and g == g) else "value"
                            ctx.violation("accumulate-%s|w=%s|%s" % (kind, "none" if w is None else "window", "large" if len(inp["cells"]) >= 50000 else "small"),
                                          "accumulate %s: %s at (%s index %d, other %s, location %s) = %r, trailing sum gives %r (series %s)"
                                          % (" ".join(argv[2:]), field, axis, gi, ov, loc[0], g, wv, vals[:12]), case)
    if bad:
        ctx.note("accumulate: %d cells differ for %s" % (bad, argv[2:]))


def run_accumulate(desc, ctx):
    rng = random.Random("C20-acc-%s-%s" % (desc["seed"], desc["k"]))
    for ci in range(desc["n"]):
        nt, nl, ns = rng.randint(2, 6), rng.randint(2, 7), rng.randint(1, 3)
        times = times_before_2038(rng, nt)
        leads = sorted(rng.sample(range(0, 49), nl))
        inp = gen.make_input(rng, "in", "nc", times, leads, rng.sample(BIG_POOL, ns), miss=rng.choice([0.0, 0.1, 0.25]), vrange=(0, 9))
        d = os.path.join(ctx.workdir, "a%d" % ci)
        os.makedirs(d)
        for rep in range(4):
            axis = rng.choice(["leadtime", "leadtime", "time"])
            n_axis = nl if axis == "leadtime" else nt
            w = rng.choice([None, 1, 2, 3, n_axis, n_axis + 1, rng.randint(1, n_axis)])
            accumulate_case(ctx, inp, d, w, rng.random() < 0.4, axis, "%d" % rep, rng.choice(["nc", "text"]))


def run_accumulate_large(desc, ctx):
    rng = random.Random("C20-large-%s" % desc["seed"])
    times = [10957 * 86400 + i * 86400 for i in range(50)]
    leads = list(range(60))
    locs = [[100 + i, 50.0 + i * 0.25, 5.0 + i * 0.5, 10.0 * i] for i in range(30)]
    inp = gen.make_input(rng, "in", "nc", times, leads, locs, miss=0.0, vrange=(0, 9))
    keys = list(inp["cells"])
    for k in rng.sample(keys, 40):
        inp["cells"][k]["obs"] = None
    for k in rng.sample(keys, 40):
        inp["cells"][k]["fcst"] = None
    d = os.path.join(ctx.workdir, "large")
    os.makedirs(d)
    ctx.count("large_fft_inputs")
    accumulate_case(ctx, inp, d, 6, False, "leadtime", "L1", "nc")
    accumulate_case(ctx, inp, d, 3, False, "time", "L2", "nc")
    # a year of daily runs (and, transposed, a very long lead-time series) with week-long and longer windows: the shape for
    # which SciPy's automatic method choice takes the FFT along the accumulated axis
    for tag, nt, nl, axis in (("Y1", 400, 3, "time"), ("Y2", 2, 400, "leadtime")):
        times = [10957 * 86400 + i * 86400 for i in range(nt)]
        inp = gen.make_input(rng, "in", "nc", times, list(range(nl)), locs[:2], miss=0.0, vrange=(0, 9))
        keys = list(inp["cells"])
        for k in rng.sample(keys, 12):
            inp["cells"][k]["obs"] = None
        for k in rng.sample(keys, 12):
            inp["cells"][k]["fcst"] = None
        dd = os.path.join(ctx.workdir, "large" + tag)
        os.makedirs(dd)
        ctx.count("long_series_inputs")
        accumulate_case(ctx, inp, dd, 7, False, axis, tag + "a", "nc")
        accumulate_case(ctx, inp, dd, 30, False, axis, tag + "b", "nc")


def run_ens2prob(desc, ctx):
    import numpy as np
    rng = random.Random("C20-e2p-%s-%s" % (desc["seed"], desc["k"]))
    for ci in range(desc["n"]):
        M = rng.randint(1, 7)
        times = times_before_2038(rng, rng.randint(1, 4))
        leads = sorted(rng.sample([0, 6, 12, 18, 24, 36, 48], rng.randint(1, 4)))
        locs = rng.sample(BIG_POOL, rng.randint(1, 3))
        inp = gen.make_input(rng, "in", "nc", times, leads, locs, members=M, miss=rng.choice([0.0, 0.1, 0.2]), vrange=(0, 12),
                             integerish=rng.random() < 0.5)
        fmt = rng.choice(["nc", "text"])
        if fmt == "text" and rng.random() < 0.5:
            # one-decimal values that single precision cannot hold exactly, observations tying with members: the text file's
            # numbers are doubles, and "member < obs" is decided on them
            DEC = [0.1, 0.7, 1.3, 2.1, 3.3, 4.9, 8.3, 9.7]
            ctx.count("ens2prob_decimal_inputs")
            for c_ in inp["cells"].values():
                if c_.get("e"):
                    c_["e"] = [None if v is None else rng.choice(DEC) for v in c_["e"]]
                if c_.get("obs") is not None:
                    c_["obs"] = rng.choice(DEC)
        inp = dict(inp, fmt=fmt, name="in." + ("nc" if fmt == "nc" else "txt"), style={})
        d = os.path.join(ctx.workdir, "e%d" % ci)
        os.makedirs(d)
        ipath = gen.write_input(inp, d, None)
        opath = os.path.join(d, "out.nc")
        thr = sorted(rng.sample([0.0, 1.0, 2.0, 3.5, 5.0, 8.0, 12.0, 20.0], rng.randint(1, 4)))
        if rng.random() < 0.5:
            rng.shuffle(thr)          # thresholds may be given in any order
        qs = sorted(rng.sample([0.0, 0.1, 0.25, 0.5, 0.75, 0.9, 1.0], rng.randint(1, 4)))
        argv = [ipath, opath, "-r", ",".join(gen.fnum(t) for t in thr), "-q", ",".join(gen.fnum(q) for q in qs), "-p"]
        r = run_script("ens2prob.py", argv)
        ctx.count("ens2prob_runs")
        case = {"inp": inp, "argv": argv[2:]}
        anymiss = any(v is None for c in inp["cells"].values() for v in (c.get("e") or []))
        ctx.case("ens2prob|M%d|%s|%s|%s" % (min(M, 3), fmt, "missing-members" if anymiss else "complete", "sorted" if thr == sorted(thr) else "unsorted"), True,
                 {"argv": argv[2:], "members": M})
        if r.returncode != 0 or not os.path.exists(opath):
            ctx.violation("ens2prob-failed", "exit %d %s" % (r.returncode, r.stderr[-500:]), case)
            continue
        out = read_nc(opath)
        if not check_dims(ctx, "ens2prob", out, inp, case):
            continue
        locmeta = {float(l[0]): l for l in inp["locs"]}
        if not check_locs(ctx, "ens2prob", out, None, locmeta, case):
            continue
        sidx = {float(v): j for j, v in enumerate(out["location"].tolist())}
        # each cdf / x column belongs to the value the file's own threshold / quantile coordinate gives it: the coordinates must
        # hold exactly the requested values (in whatever order the script chooses)
        sthr = [float(v) for v in out.get("threshold", np.zeros(0)).tolist()]
        sqs = [float(v) for v in out.get("quantile", np.zeros(0)).tolist()]
        ctx.count("ens2prob_coordinate_checks")
        if sorted(sthr) != sorted(float(t_) for t_ in thr) or any(abs(u - v) > 1e-6 for u, v in zip(sorted(sqs), sorted(qs))) or len(sqs) != len(qs):
            ctx.violation("ens2prob-coordinates", "requested thresholds %s / quantiles %s, the file's coordinates are %s / %s" % (thr, qs, sthr, sqs), case)
            continue
        thr_req = thr
        thr = sthr
        qcol = [min(range(len(sqs)), key=lambda j_: abs(sqs[j_] - q_)) for q_ in qs]
        for a, t in enumerate(inp["times"]):
            for b, l in enumerate(inp["leadtimes"]):
                for loc in inp["locs"]:
                    c = sidx[float(loc[0])]
                    cell = inp["cells"][gen.ck(t, l, loc[0])]
                    mem = cell.get("e") or [None] * M
                    present = [m for m in mem if m is not None]
                    ctx.count("ens2prob_cells")
                    for f in ("obs", "fcst"):
                        w = cell.get(f)
                        if not vutil.num_equal(float(out[f][a, b, c]), NAN if w is None else w, 1e-6, 1e-6):
                            ctx.violation("ens2prob-%s-not-preserved" % f, "(%s,%s,%s): %r vs %r" % (t, l, loc[0], float(out[f][a, b, c]), w), case)
                    cdf = out["cdf"][a, b, c, :]
                    prev = -1.0
                    for j, th in sorted(enumerate(thr), key=lambda x: x[1]):
                        g = float(cdf[j])
                        if present:
                            want = sum(1 for m in present if m < th) / float(len(present))
                            want_le = sum(1 for m in present if m <= th) / float(len(present))
                            if not (0.0 <= g <= 1.0) or g < prev - 1e-6:
                                ctx.violation("ens2prob-cdf-invariant", "cdf %s at thresholds %s not in [0,1] / decreasing (members %s)" % (list(cdf), thr, mem), case)
                                break
                            if min(want, want_le) - 1e-6 > g or g > max(want, want_le) + 1e-6:
                                ctx.violation("ens2prob-cdf-value", "cdf(%s) = %r, fraction of members below/at-or-below = %r/%r (members %s)"
                                              % (th, g, want, want_le, mem), case)
                                break
                            prev = g
                    if len(present) == M:
                        x = out["x"][a, b, c, :]
                        prevq = None
                        for j, q in enumerate(qs):
                            g = float(x[qcol[j]])
                            if g != g or not (min(present) - 1e-6 <= g <= max(present) + 1e-6) or (prevq is not None and g < prevq - 1e-6):
                                ctx.violation("ens2prob-quantile-invariant|%s" % ("M1" if M == 1 else "M>1"), "quantiles %s at levels %s: outside the ensemble range or decreasing "
                                              "(members %s)" % (list(x), qs, sorted(present)), case)
                                break
                            prevq = g
                    gp = float(out["pit"][a, b, c])
                    ob = cell.get("obs")
                    if ob is None:
                        if gp == gp:
                            ctx.violation("ens2prob-pit-where-obs-missing", "PIT = %r at (%s,%s,%s) where the observation is missing" % (gp, t, l, loc[0]), case)
                    elif len(present) == M:
                        want = sum(1 for m in present if m < ob) / float(M)
                        if not vutil.num_equal(gp, want, 1e-6, 1e-6):
                            ctx.violation("ens2prob-pit-value", "PIT = %r, fraction of members below obs %r is %r (members %s)" % (gp, ob, want, mem), case)


def run_expandverif(desc, ctx):
    import numpy as np
    rng = random.Random("C20-exp-%s-%s" % (desc["seed"], desc["k"]))
    for ci in range(desc["n"]):
        day0 = rng.choice([10957, 11016, 15705, 17165])
        ndays = rng.randint(1, 4)
        hours_in = rng.choice([[0], [0, 12], [6]])
        times = sorted(day0 * 86400 + dd * 86400 + h * 3600 for dd in range(ndays) for h in hours_in)
        leads = sorted(rng.sample([0, 3, 6, 12, 18, 24, 30, 36, 48], rng.randint(2, 5)))
        subhourly = rng.random() < 0.5
        if subhourly:
            # observation times a quarter of an hour apart: a requested time must match exactly, not "nearly"
            leads = sorted(set(leads + rng.sample([0.25, 0.5, 0.75, 1, 1.5, 2.75, 3.25], rng.randint(2, 5))))
            ctx.count("expandverif_subhourly_runs")
        locs = rng.sample(BIG_POOL, rng.randint(1, 3))
        inp = gen.make_input(rng, "in", "nc", times, leads, locs, miss=0.0, vrange=(0, 20))
        # observations are a function of valid time and location
        truth = {}
        for t in times:
            for l in leads:
                for loc in locs:
                    vt = (t + int(l * 3600), loc[0])
                    if vt not in truth:
                        truth[vt] = None if rng.random() < 0.1 else gen.q8(rng, 0, 20)
                    inp["cells"][gen.ck(t, l, loc[0])]["obs"] = truth[vt]
        fmt = rng.choice(["nc", "text"])
        inp = dict(inp, fmt=fmt, name="in." + ("nc" if fmt == "nc" else "txt"), style={})
        d = os.path.join(ctx.workdir, "x%d" % ci)
        os.makedirs(d)
        ipath = gen.write_input(inp, d, None)
        opath = os.path.join(d, "out.nc")
        inits = sorted(rng.sample([0, 6, 12, 18], rng.randint(1, 3)))
        olt = sorted(rng.sample([0, 3, 6, 9, 12, 18, 24, 36, 42, 48, 60], rng.randint(1, 5)))
        if subhourly:
            olt = sorted(set(olt + rng.sample([0.25, 0.5, 1, 1.25, 1.5, 3.25, 3.5, 6.25], rng.randint(1, 4))))
        argv = [ipath, "-o", opath, "-i", ",".join(str(i) for i in inits), "-lt", ",".join(gen.fnum(i) for i in olt)]
        r = run_script("expandverif.py", argv)
        ctx.count("expandverif_runs")
        case = {"inp": inp, "argv": argv[1:]}
        ctx.case("expandverif|i%d|lt%d|%s" % (len(inits), len(olt), fmt), True, {"argv": argv[3:], "input_times": times, "input_leadtimes": leads})
        if r.returncode != 0 or not os.path.exists(opath):
            ctx.violation("expandverif-failed", "exit %d %s" % (r.returncode, r.stderr[-500:]), case)
            continue
        out = read_nc(opath)
        days = sorted(set((t // 86400) * 86400 for t in times))
        want_times = sorted(dd + h * 3600 for dd in days for h in inits)
        if sorted(out["time"].tolist()) != [float(t) for t in want_times]:
            ctx.violation("expandverif-times", "%s, expected days x initialisation hours %s" % (out["time"].tolist(), want_times), case)
            continue
        if not np.allclose(out["leadtime"], np.array(olt, float)):
            ctx.violation("expandverif-leadtimes", "%s vs requested %s" % (out["leadtime"].tolist(), olt), case)
            continue
        locmeta = {float(l[0]): l for l in inp["locs"]}
        if not check_locs(ctx, "expandverif", out, None, locmeta, case):
            continue
        sidx = {float(v): j for j, v in enumerate(out["location"].tolist())}
        for a, t in enumerate(out["time"].tolist()):
            for b, l in enumerate(olt):
                for loc in locs:
                    ctx.count("expandverif_cells")
                    w = truth.get((int(t) + l * 3600, loc[0]))
                    g = float(out["obs"][a, b, sidx[float(loc[0])]])
                    if not vutil.num_equal(g, NAN if w is None else w, 1e-6, 1e-6):
                        kind = "placed-where-no-valid-time-matches" if w is None else "missing-or-wrong"
                        ctx.violation("expandverif-obs|%s" % kind, "obs at (init %d, lead %s, location %s) = %r; observation valid at that time: %r"
                                      % (t, l, loc[0], g, w), case)


def run_shard(desc, ctx):
    {"accumulate": run_accumulate, "accumulate-large": run_accumulate_large, "ens2prob": run_ens2prob,
     "expandverif": run_expandverif}[desc["part"]](desc, ctx)


def replay(case, ctx):
    run_accumulate({"seed": 0, "k": 0, "n": 2}, ctx)
    run_ens2prob({"seed": 0, "k": 0, "n": 2}, ctx)
    run_expandverif({"seed": 0, "k": 0, "n": 2}, ctx)
