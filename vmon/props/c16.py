"""C16 Diagrams draw the quantities their definitions prescribe."""
import math
import os
import random

from vmon import attach, gen, refmetrics, refmodel, runner, vutil
from vmon.props import c16_more

RULE = ("for each diagram (standard line/bar plot, obsfcst, qq, scatter, cond, freq, hist, sort, marginal, reliability, "
        "invreliability, discrimination, roc, droc, droc0, performance, taylor, error, pithist, spreadskill, murphy, "
        "economicvalue, bsdecomp, igncontrib, fss, autocorr/autocov, timeseries, meteo, against, change, map, rank, impact) "
        "verif is run in-process on generated deterministic / probabilistic datasets with the diagram's options (-r, -q, -b, "
        "-x, -simple) and the artists of the resulting figure (Line2D data, bar patches, scatter offsets/sizes/colours, legend "
        "labels) are read back and compared with the diagram's defining statistic of the common valid cases computed by the "
        "reference model; one series per input in command-line order; for binned diagrams every valid case must fall in "
        "exactly one bin (sum of bin counts = number of valid cases). signature = (diagram, option set, dataset kind, "
        "#inputs); non-trivial = >= 2 distinct ordinates read back per series.")
RULE += " " + 'Diagrams qq-q (quantile curves), timeseries-ens (one curve per member), rank view with a score undefined for one input only; shards rotate the process time zone.'
RULE += " " + 'Rounds 9-10: mapimpact markers; inverse reliability with several quantile levels and automatic bins.'
RULE += " " + 'Rounds 11-12: discrimination with given bin edges; freq with forecast-only inputs.'
RULE += " " + 'Rounds 13-14: the complete autocorr / autocov diagram (no -simple) along elev / lat / lon / location on a network whose stations share coordinates, including the zero-distance marker; per-input probabilistic diagrams (reliability, discrimination, roc, marginal, igncontrib, economicvalue, bsdecomp, invreliability) on files that store different observations.'
ASSUMPTIONS = ["figures are checked through matplotlib's object model (Agg backend), not pixels",
               "decorations (confidence bands, reference lines, labels) are not part of the property"]
REQUIRED_COUNTERS = ["figures", "series_compared", "points_compared", "bin_conservation_checks"]
ROTATE_TZ = True       # dates, times of day and time labels are UTC whatever the time zone of the machine
ANCHOR_FUNCS = ["Output.plot"]
TIMEOUT = {"quick": 1500, "thorough": 7200}

NAN = float("nan")


def plan(tier, seed):
    n = 6 if tier == "quick" else 60
    names = sorted(DIAGRAMS) + sorted(c16_more.DIAGRAMS)
    shards = []
    for i in range(16):
        shards.append({"seed": seed, "k": i, "n": n, "diagrams": names[i::16]})
    return shards


# ------------------------------------------------------------------ helpers

class Fig(object):
    def __init__(self, fig):
        self.fig = fig
        self.axes = fig.axes

    def lines(self, ax=0, label=None):
        out = []
        for l in self.axes[ax].get_lines():
            if label is None or l.get_label() == label:
                out.append(l)
        return out

    def xy(self, line):
        import numpy as np
        return [float(v) for v in np.asarray(line.get_xdata(), float).flatten()], \
               [float(v) for v in np.asarray(line.get_ydata(), float).flatten()]


def seq_equal(a, b, rel=1e-6, abs_=1e-9):
    return len(a) == len(b) and all(vutil.num_equal(x, y, rel, abs_) for x, y in zip(a, b))


def compare_series(ctx, diagram, what, got, want, case, rel=1e-6, abs_=1e-8):
    ctx.count("series_compared")
    ctx.count("points_compared", len(want))
    if not seq_equal(got, want, rel, abs_):
        ctx.violation("%s|%s" % (diagram, what.split(" ")[0]), "%s: %s\n  drawn:    %s\n  defining: %s" % (diagram, what, _short(got), _short(want)), case)
        return False
    return True


def _short(v):
    return "[" + ", ".join("%.6g" % x for x in v[:14]) + (", ...]" if len(v) > 14 else "]") + " (n=%d)" % len(v)


def pairs(ds, k, opts=None):
    return [tuple(c[3]) for c in refmodel.valid_cases(ds, k, [("obs",), ("fcst",)], opts)]


def mpl_datenum(t):
    return t / 86400.0


def axis_x(ds, axis):
    labs = refmodel.slice_labels(ds, axis)
    if axis in ("time", "year", "month", "week", "day"):
        return [mpl_datenum(t) for t in labs]
    return [float(x) for x in labs]


# ------------------------------------------------------------------ diagrams, part 1

def d_standard(ctx, rng, ds, paths, kind):
    """standard line plot of a metric: one Line2D per input = Metric scores per slice"""
    metric = rng.choice(["mae", "bias", "rmse", "corr"])
    axis = rng.choice(["leadtime", "time", "location", "month", "leadtimeday", "lat", "no"])
    argv = ["-m", metric, "-x", axis]
    fig, case = run(ctx, paths, argv, ds)
    if fig is None:
        return
    F = len(ds["inputs"])
    distinct = 0
    if axis == "no":
        bars = [p for p in fig.axes[0].patches]
        got = [float(b.get_height()) for b in bars[:F]]
        want = [refmetrics.deterministic(metric, *zip(*pairs(ds, k))) if pairs(ds, k) else NAN for k in range(F)]
        compare_series(ctx, "standard", "bar heights (-x no) %s" % metric, got, want, case)
        distinct = len(set(got))
    else:
        xs = axis_x(ds, axis)
        for k in range(F):
            ls = fig.lines(0, ds["inputs"][k]["name"])
            if len(ls) != 1:
                ctx.violation("standard|series-missing", "no single line labelled %s (labels %s)" % (ds["inputs"][k]["name"], [l.get_label() for l in fig.lines(0)]), case)
                return
            gx, gy = fig.xy(ls[0])
            sl = refmodel.slices(ds, k, [("obs",), ("fcst",)], axis)
            want = [refmetrics.deterministic(metric, [c[0] for c in cs], [c[1] for c in cs]) for lab, cs in sl]
            compare_series(ctx, "standard", "y %s -x %s input %d" % (metric, axis, k), gy, want, case)
            compare_series(ctx, "standard", "x %s -x %s input %d" % (metric, axis, k), gx, xs, case)
            distinct = max(distinct, len(set(y for y in gy if y == y)))
        order = [l.get_label() for l in fig.lines(0) if l.get_label() in [i["name"] for i in ds["inputs"]]]
        if order != [i["name"] for i in ds["inputs"]]:
            ctx.violation("standard|series-order", "series drawn in order %s" % order, case)
    done(ctx, "standard", argv, kind, F, distinct)


def d_obsfcst(ctx, rng, ds, paths, kind):
    axis = rng.choice(["leadtime", "time", "location", "month"])
    agg = rng.choice([None, "median", "max"])
    argv = ["-m", "obsfcst", "-x", axis] + (["-agg", agg] if agg else [])
    qs = []
    if kind == "prob" and rng.random() < 0.7:
        qs = sorted(rng.sample(ds["inputs"][0]["quantiles"], rng.choice([1, 2, 3])))
        argv += ["-q", ",".join(gen.fnum(q) for q in qs)]
    fig, case = run(ctx, paths, argv, ds)
    if fig is None:
        return
    F = len(ds["inputs"])
    for q in qs:
        for k in range(F):
            label = "%s %g%%" % (ds["inputs"][k]["name"], q * 100)
            lq = fig.lines(0, label)
            if len(lq) != 1:
                ctx.violation("obsfcst|series-missing", "no quantile curve labelled %r (labels %s)" % (label, [l.get_label() for l in fig.lines(0)][:12]), case)
                continue
            gx, gy = fig.xy(lq[0])
            slq = refmodel.slices(ds, k, [("q", q), ("obs",)], axis)
            wantq = [refmetrics.aggregate(agg or "mean", [c[0] for c in cs]) if cs else NAN for lab, cs in slq]
            compare_series(ctx, "obsfcst", "quantile curve %s of input %d (-x %s)" % (label, k, axis), gy, wantq, case)
            # the curve must be drawn in the colour of its own input's forecast line
            lf = fig.lines(0, ds["inputs"][k]["name"])
            if lf and lq[0].get_color() != lf[0].get_color():
                ctx.violation("obsfcst|quantile-curve-colour", "curve %r is drawn in colour %r, its input's forecast line in %r"
                              % (label, lq[0].get_color(), lf[0].get_color()), case)
    xs = axis_x(ds, axis)
    sl0 = refmodel.slices(ds, 0, [("obs",), ("fcst",)], axis)
    want_obs = [refmetrics.aggregate(agg or "mean", [c[0] for c in cs]) if cs else NAN for lab, cs in sl0]
    lo = fig.lines(0, "Observed")
    distinct = 0
    if len(lo) != 1:
        ctx.violation("obsfcst|series-missing", "no 'Observed' line", case)
    else:
        gx, gy = fig.xy(lo[0])
        compare_series(ctx, "obsfcst", "obs line -x %s" % axis, gy, want_obs, case)
        compare_series(ctx, "obsfcst", "x of obs line", gx, xs, case)
    for k in range(F):
        ls = fig.lines(0, ds["inputs"][k]["name"])
        if len(ls) != 1:
            ctx.violation("obsfcst|series-missing", "no line for %s" % ds["inputs"][k]["name"], case)
            continue
        gx, gy = fig.xy(ls[0])
        sl = refmodel.slices(ds, k, [("obs",), ("fcst",)], axis)
        want = [refmetrics.aggregate(agg or "mean", [c[1] for c in cs]) if cs else NAN for lab, cs in sl]
        compare_series(ctx, "obsfcst", "fcst line input %d -x %s" % (k, axis), gy, want, case)
        distinct = max(distinct, len(set(y for y in gy if y == y)))
    done(ctx, "obsfcst", argv, kind, F, distinct)


def d_qq(ctx, rng, ds, paths, kind):
    argv = ["-m", "qq"]
    fig, case = run(ctx, paths, argv, ds)
    if fig is None:
        return
    F = len(ds["inputs"])
    distinct = 0
    for k in range(F):
        ls = fig.lines(0, ds["inputs"][k]["name"])
        if len(ls) != 1:
            ctx.violation("qq|series-missing", "no line for input %d" % k, case)
            continue
        gx, gy = fig.xy(ls[0])
        p = pairs(ds, k)
        if not p:
            # no valid pair: verif plots one NaN point, which draws nothing
            gx, gy = [v for v in gx if v == v], [v for v in gy if v == v]
        compare_series(ctx, "qq", "x = sorted obs input %d" % k, gx, sorted(a for a, b in p), case)
        compare_series(ctx, "qq", "y = sorted fcst input %d" % k, gy, sorted(b for a, b in p), case)
        distinct = max(distinct, len(set(gy)))
    done(ctx, "qq", argv, kind, F, distinct)


def d_scatter(ctx, rng, ds, paths, kind):
    argv = ["-m", "scatter", "-simple"] if rng.random() < 0.5 else ["-m", "scatter"]
    fig, case = run(ctx, paths, argv, ds)
    if fig is None:
        return
    F = len(ds["inputs"])
    distinct = 0
    for k in range(F):
        ls = fig.lines(0, ds["inputs"][k]["name"])
        if len(ls) != 1:
            ctx.violation("scatter|series-missing", "no marker series for input %d" % k, case)
            continue
        gx, gy = fig.xy(ls[0])
        p = pairs(ds, k)
        got = sorted(zip(gx, gy))
        want = sorted(p)
        if not want:
            got = [g for g in got if g[0] == g[0] and g[1] == g[1]]     # a NaN point draws nothing
        ctx.count("series_compared")
        ctx.count("points_compared", len(want))
        if len(got) != len(want) or any(not (vutil.num_equal(a[0], b[0]) and vutil.num_equal(a[1], b[1])) for a, b in zip(got, want)):
            ctx.violation("scatter|points", "input %d: %d points drawn, %d valid (obs, fcst) pairs; first drawn %s, first valid %s"
                          % (k, len(got), len(want), got[:4], want[:4]), case)
        distinct = max(distinct, len(set(gy)))
    done(ctx, "scatter", argv, kind, F, distinct)


def _thresholds(rng, ds, n):
    vals = sorted(set(v for c in ds["inputs"][0]["cells"].values() for v in (c.get("obs"), c.get("fcst")) if v is not None))
    pool = sorted(set([math.floor(min(vals)) - 1, math.ceil(max(vals)) + 1] + vals))
    return sorted(rng.sample(pool, min(n, len(pool))))


def d_freq(ctx, rng, ds, paths, kind):
    ts = _thresholds(rng, ds, 4)
    b = rng.choice(["within=", "within", "=within", "above", "below="])
    argv = ["-m", "freq", "-r", ",".join(gen.fnum(t) for t in ts), "-b", b]
    fig, case = run(ctx, paths, argv, ds)
    if fig is None:
        return
    F = len(ds["inputs"])
    from vmon import refcli
    evs = refcli.events(b, ts)
    distinct = 0
    for k in range(F):
        p = pairs(ds, k)
        ls = fig.lines(0, ds["inputs"][k]["name"])
        if len(ls) != 1 or not p:
            continue
        gx, gy = fig.xy(ls[0])
        want = [sum(1 for o, f in p if attach.in_documented_event(f, b, e[0], e[1])) / float(len(p)) for e in evs]
        compare_series(ctx, "freq", "forecast frequency per event input %d (bin %s)" % (k, b), gy, want, case)
        distinct = max(distinct, len(set(gy)))
        if b == "within=":
            ctx.count("bin_conservation_checks")
            inside = sum(1 for o, f in p if ts[0] < f <= ts[-1])
            if abs(sum(gy) * len(p) - inside) > 1e-6:
                ctx.violation("freq|bin-conservation", "the within= bins hold %.3f forecasts, %d lie in (first, last]" % (sum(gy) * len(p), inside), case)
    lo = fig.lines(0, "Observed")
    p = pairs(ds, F - 1)
    if lo and p:
        gx, gy = fig.xy(lo[0])
        want = [sum(1 for o, f in p if attach.in_documented_event(o, b, e[0], e[1])) / float(len(p)) for e in evs]
        compare_series(ctx, "freq", "observed frequency per event (bin %s)" % b, gy, want, case)
    done(ctx, "freq", argv, kind, F, distinct)


def d_freq_noobs(ctx, rng, ds, paths, kind):
    """forecast-only files (no obs column): one forecast-frequency curve per input, each from its own forecasts"""
    import copy
    ds2 = copy.deepcopy(ds)
    for inp in ds2["inputs"]:
        inp["has"] = [h for h in inp["has"] if h not in ("obs", "pit")]
        inp["fmt"] = "text"
        inp["name"] = inp["name"].rsplit(".", 1)[0] + ".txt"
        inp["style"] = {}
    ds2["clim"] = None
    d = os.path.join(os.path.dirname(paths[0]), "noobs")
    os.makedirs(d, exist_ok=True)
    paths2 = [gen.write_input(inp, d, None) for inp in ds2["inputs"]]
    ts = _thresholds(rng, ds, 4)
    b = rng.choice(["within=", "within", "above", "below="])
    argv = ["-m", "freq", "-r", ",".join(gen.fnum(t) for t in ts), "-b", b]
    fig, case = run(ctx, paths2, argv, ds2)
    if fig is None:
        return
    F = len(ds2["inputs"])
    from vmon import refcli
    evs = refcli.events(b, ts)
    distinct = 0
    for k in range(F):
        fc = [c[3][0] for c in refmodel.valid_cases(ds2, k, [("fcst",)])]
        ls = fig.lines(0, ds2["inputs"][k]["name"])
        if len(ls) != 1:
            ctx.violation("freq|series-missing", "forecast-only inputs: no curve for input %d" % k, case)
            continue
        if not fc:
            continue
        gx, gy = fig.xy(ls[0])
        want = [sum(1 for f in fc if attach.in_documented_event(f, b, e[0], e[1])) / float(len(fc)) for e in evs]
        compare_series(ctx, "freq", "forecast frequency per event, forecast-only input %d (bin %s)" % (k, b), gy, want, case)
        distinct = max(distinct, len(set(gy)))
    done(ctx, "freq-noobs", argv, kind, F, distinct)


def d_cond(ctx, rng, ds, paths, kind):
    ts = _thresholds(rng, ds, 4)
    argv = ["-m", "cond", "-r", ",".join(gen.fnum(t) for t in ts)]
    fig, case = run(ctx, paths, argv, ds)
    if fig is None:
        return
    F = len(ds["inputs"])
    from vmon import refcli
    evs = refcli.events("within=", ts)
    distinct = 0
    for k in range(F):
        p = pairs(ds, k)
        name = ds["inputs"][k]["name"]
        l1 = fig.lines(0, name + " (F|O)")
        l2 = fig.lines(0, name + " (O|F)")
        if len(l1) != 1 or len(l2) != 1:
            ctx.violation("cond|series-missing", "lines for %s not found" % name, case)
            continue
        gx, gy = fig.xy(l1[0])
        wx, wy = [], []
        for e in evs:
            sel = [(o, f) for o, f in p if attach.in_documented_event(o, "within=", e[0], e[1])]
            wx.append(refmetrics.median([o for o, f in sel]) if sel else NAN)
            wy.append(refmetrics.mean([f for o, f in sel]) if sel else NAN)
        compare_series(ctx, "cond", "mean fcst given obs bin, input %d" % k, gy, wy, case)
        compare_series(ctx, "cond", "x median obs in bin, input %d" % k, gx, wx, case)
        gx2, gy2 = fig.xy(l2[0])
        wx2, wy2 = [], []
        for e in evs:
            sel = [(o, f) for o, f in p if attach.in_documented_event(f, "within=", e[0], e[1])]
            wx2.append(refmetrics.mean([o for o, f in sel]) if sel else NAN)
            wy2.append(refmetrics.median([f for o, f in sel]) if sel else NAN)
        compare_series(ctx, "cond", "mean obs given fcst bin, input %d" % k, gx2, wx2, case)
        compare_series(ctx, "cond", "y median fcst in bin, input %d" % k, gy2, wy2, case)
        distinct = max(distinct, len(set(y for y in gy if y == y)))
    done(ctx, "cond", argv, kind, F, distinct)


def d_hist(ctx, rng, ds, paths, kind):
    ts = _thresholds(rng, ds, 4)
    field = rng.choice(["obs", "fcst"])
    argv = ["-m", field, "-hist", "-r", ",".join(gen.fnum(t) for t in ts)]
    fig, case = run(ctx, paths, argv, ds)
    if fig is None:
        return
    F = len(ds["inputs"])
    from vmon import refcli
    evs = refcli.events("within=", ts)
    distinct = 0
    for k in range(F):
        ls = fig.lines(0, ds["inputs"][k]["name"])
        if len(ls) != 1:
            continue
        vals = [c[3][0] for c in refmodel.valid_cases(ds, k, [(field,)])]
        cnt = [sum(1 for v in vals if attach.in_documented_event(v, "within=", e[0], e[1])) for e in evs]
        tot = float(sum(cnt))
        gx, gy = fig.xy(ls[0])
        if tot > 0:
            compare_series(ctx, "hist", "%% of %s values per bin, input %d" % (field, k), gy, [c * 100.0 / tot for c in cnt], case)
        distinct = max(distinct, len(set(gy)))
    done(ctx, "hist", argv, kind, F, distinct)


def d_sort(ctx, rng, ds, paths, kind):
    field = rng.choice(["obs", "fcst"])
    argv = ["-m", field, "-sort"]
    fig, case = run(ctx, paths, argv, ds)
    if fig is None:
        return
    F = len(ds["inputs"])
    distinct = 0
    for k in range(F):
        ls = fig.lines(0, ds["inputs"][k]["name"])
        if len(ls) != 1:
            ctx.violation("sort|series-missing", "no line for input %d" % k, case)
            continue
        vals = sorted(c[3][0] for c in refmodel.valid_cases(ds, k, [(field,)]))
        gx, gy = fig.xy(ls[0])
        compare_series(ctx, "sort", "sorted %s values input %d" % (field, k), gx, vals, case)
        n = len(vals)
        compare_series(ctx, "sort", "percentile axis", gy, [100.0 * i / (n - 1) if n > 1 else 0.0 for i in range(n)], case)
        distinct = max(distinct, len(set(gx)))
    done(ctx, "sort", argv, kind, F, distinct)


def d_pithist(ctx, rng, ds, paths, kind):
    if kind != "prob":
        return
    argv = ["-m", "pithist"]
    edges = [i / 10.0 for i in range(11)]
    if rng.random() < 0.4:
        edges = [0.0, 0.25, 0.5, 0.75, 1.0]
        argv += ["-r", "0,0.25,0.5,0.75,1"]
    fig, case = run(ctx, paths, argv, ds)
    if fig is None:
        return
    F = len(ds["inputs"])
    distinct = 0
    if len([a for a in fig.axes]) < F:
        ctx.violation("pithist|panels", "%d panels for %d inputs" % (len(fig.axes), F), case)
        return
    for k in range(F):
        ax = fig.axes[k]
        if ax.get_title() != ds["inputs"][k]["name"]:
            ctx.violation("pithist|series-order", "panel %d titled %r" % (k, ax.get_title()), case)
        bars = sorted([p for p in ax.patches if hasattr(p, "get_height") and p.get_width() > 0 and p.get_height() >= 0
                       and abs(p.get_width() - 1.0 / (len(edges) - 1)) < 1e-9], key=lambda p: p.get_x())
        pit = [c[3][0] for c in refmodel.valid_cases(ds, k, [("pit",)])]
        nb = len(edges) - 1
        cnt = [0] * nb
        for v in pit:
            for i in range(nb):
                if (edges[i] <= v < edges[i + 1]) or (i == nb - 1 and v == edges[-1]):
                    cnt[i] += 1
                    break
        tot = float(sum(cnt))
        got = [float(b.get_height()) for b in bars]
        ctx.count("bin_conservation_checks")
        if tot != len(pit):
            ctx.note("pit values outside [0,1]?")
        if tot > 0:
            compare_series(ctx, "pithist", "bar heights (%% per PIT bin) input %d" % k, got, [c * 100.0 / tot for c in cnt], case)
            if abs(sum(got) - 100.0) > 1e-6:
                ctx.violation("pithist|bin-conservation", "bars sum to %r%%: some PIT value is in no bin or two" % sum(got), case)
        distinct = max(distinct, len(set(got)))
    done(ctx, "pithist", argv, kind, F, distinct)


def _event_prob_cases(ds, k, b, t):
    cs = refmodel.valid_cases(ds, k, [("obs",), ("thr", t)])
    o = [1.0 if attach.in_documented_event(c[3][0], b, t) else 0.0 for c in cs]
    ul, lc, uu, uc = attach.BIN_TABLE[b]
    p = [c[3][1] if uu else 1.0 - c[3][1] for c in cs]
    return o, p


def d_reliability(ctx, rng, ds, paths, kind):
    if kind != "prob":
        return
    t = rng.choice(ds["inputs"][0]["thresholds"])
    b = rng.choice(["above", "below=", "above=", "below"])
    argv = ["-m", "reliability", "-r", gen.fnum(t), "-b", b] + (["-simple"] if rng.random() < 0.3 else [])
    fig, case = run(ctx, paths, argv, ds)
    if fig is None:
        return
    F = len(ds["inputs"])
    edges = [0, 0.05, 0.15, 0.25, 0.35, 0.45, 0.55, 0.65, 0.75, 0.85, 0.95, 1]
    main = fig.axes[0]
    inset = fig.axes[1] if len(fig.axes) > 1 else None
    distinct = 0
    for k in range(F):
        o, p = _event_prob_cases(ds, k, b, t)
        ls = [l for l in main.get_lines() if l.get_label() == ds["inputs"][k]["name"]]
        if len(ls) != 1:
            ctx.violation("reliability|series-missing", "no line for input %d" % k, case)
            continue
        gx, gy = fig.xy(ls[0])
        wx, wy, wn = [], [], []
        nb = len(edges) - 1
        for i in range(nb):
            sel = [(a, q) for a, q in zip(o, p) if (edges[i] <= q < edges[i + 1]) or (i == nb - 1 and q == edges[-1])]
            wn.append(len(sel))
            wx.append(refmetrics.mean([q for a, q in sel]) if sel else 0.0)
            wy.append(refmetrics.mean([a for a, q in sel]) if len(sel) >= 5 else NAN)
        ctx.count("bin_conservation_checks")
        # the count inset (when drawn) tells how many cases each bin received
        if inset is not None and inset.get_lines():
            il = inset.get_lines()[k] if k < len(inset.get_lines()) else None
            if il is not None:
                nx, ny = fig.xy(il)
                if abs(sum(ny) - len(o)) > 1e-6:
                    ctx.violation("reliability|bin-conservation", "input %d: the bins hold %g cases, %d valid cases exist (cases with p = %s: %d)"
                                  % (k, sum(ny), len(o), "1", sum(1 for q in p if q == 1.0)), case)
                    continue
        compare_series(ctx, "reliability", "observed frequency per probability bin, input %d (bin %s)" % (k, b), gy, wy, case)
        compare_series(ctx, "reliability", "x mean forecast probability per bin, input %d" % k, gx, wx, case)
        distinct = max(distinct, len(set(y for y in gy if y == y)))
    done(ctx, "reliability", argv, kind, F, distinct)


def d_discrimination(ctx, rng, ds, paths, kind):
    if kind != "prob":
        return
    _discrimination(ctx, rng, ds, paths, kind, False)
    _discrimination(ctx, rng, ds, paths, kind, True)


def _discrimination(ctx, rng, ds, paths, kind, given):
    t = rng.choice(ds["inputs"][0]["thresholds"])
    b = rng.choice(["above", "below="])
    argv = ["-m", "discrimination", "-r", gen.fnum(t), "-b", b]
    edges = [i * 0.1 for i in range(10)] + [1.0]
    if given:
        # -q gives the bin edges: fewer or more than the default ten bins
        edges = rng.choice([[0.0, 0.25, 0.5, 0.75, 1.0], [0.0, 0.5, 1.0], [i / 20.0 for i in range(21)], [0.0, 0.1, 0.3, 0.6, 0.8, 0.9, 1.0]])
        argv += ["-q", ",".join(gen.fnum(e) for e in edges)]
        ctx.count("discrimination_with_given_edges")
    nb = len(edges) - 1
    fig, case = run(ctx, paths, argv, ds)
    if fig is None:
        return
    F = len(ds["inputs"])
    ax = fig.axes[0]
    bars = [p for p in ax.patches if p.get_width() > 0]
    distinct = 0
    # bars are drawn per input: first the 'not observed' group (one bar per bin), then the 'observed' group
    if len(bars) != 2 * nb * F:
        ctx.violation("discrimination|bars", "%d bars for %d inputs (expected %d per input)" % (len(bars), F, 2 * nb), case)
        return
    for k in range(F):
        o, p = _event_prob_cases(ds, k, b, t)
        g0 = [float(x.get_height()) for x in bars[2 * nb * k:2 * nb * k + nb]]
        g1 = [float(x.get_height()) for x in bars[2 * nb * k + nb:2 * nb * k + 2 * nb]]
        for ev, got in ((0.0, g0), (1.0, g1)):
            sel = [q for a, q in zip(o, p) if a == ev]
            if not sel:
                continue
            want = []
            for i in range(nb):
                want.append(100.0 * sum(1 for q in sel if (edges[i] <= q < edges[i + 1]) or (i == nb - 1 and q == edges[-1])) / len(sel))
            ctx.count("bin_conservation_checks")
            if abs(sum(got) - 100.0) > 1e-6:
                ctx.violation("discrimination|bin-conservation", "input %d, %s cases: the bars sum to %.4g%% (cases with p = 1: %d of %d)"
                              % (k, "event" if ev else "non-event", sum(got), sum(1 for q in sel if q == 1.0), len(sel)), case)
                continue
            compare_series(ctx, "discrimination", "%% of forecasts per bin given %s, input %d" % ("event" if ev else "no event", k), got, want, case)
        distinct = max(distinct, len(set(g1)))
    done(ctx, "discrimination", argv, kind, F, distinct)


def d_roc(ctx, rng, ds, paths, kind):
    if kind != "prob":
        return
    t = rng.choice(ds["inputs"][0]["thresholds"])
    b = rng.choice(["above", "below=", "above=", "below"])
    argv = ["-m", "roc", "-r", gen.fnum(t), "-b", b]
    fig, case = run(ctx, paths, argv, ds)
    if fig is None:
        return
    F = len(ds["inputs"])
    levels = [i * 0.1 for i in range(10)] + [1.0]
    distinct = 0
    for k in range(F):
        o, p = _event_prob_cases(ds, k, b, t)
        ls = fig.lines(0, ds["inputs"][k]["name"])
        if len(ls) != 1:
            ctx.violation("roc|series-missing", "no line for input %d" % k, case)
            continue
        gx, gy = fig.xy(ls[0])
        wx, wy = [1.0], [1.0]
        for lev in levels:
            a = sum(1 for ov, q in zip(o, p) if q >= lev and ov == 1)
            bb = sum(1 for ov, q in zip(o, p) if q >= lev and ov == 0)
            c = sum(1 for ov, q in zip(o, p) if q < lev and ov == 1)
            d = sum(1 for ov, q in zip(o, p) if q < lev and ov == 0)
            if a + c > 0 and bb + d > 0:
                wy.append(a / float(a + c))
                wx.append(bb / float(bb + d))
            else:
                wx.append(NAN)
                wy.append(NAN)
        wx.append(0.0)
        wy.append(0.0)
        compare_series(ctx, "roc", "hit rate per probability level, input %d (bin %s)" % (k, b), gy, wy, case)
        compare_series(ctx, "roc", "false alarm rate per probability level, input %d" % k, gx, wx, case)
        distinct = max(distinct, len(set(y for y in gy if y == y)))
    done(ctx, "roc", argv, kind, F, distinct)


def _table(p, b, t, ft=None):
    ft = t if ft is None else ft
    a = bb = c = d = 0
    for o, f in p:
        eo = attach.in_documented_event(o, b, t)
        ef = attach.in_documented_event(f, b, ft)
        if ef and eo:
            a += 1
        elif ef:
            bb += 1
        elif eo:
            c += 1
        else:
            d += 1
    return a, bb, c, d


def d_performance(ctx, rng, ds, paths, kind):
    t = _thresholds(rng, ds, 3)[1]
    b = rng.choice(["above", "below=", "above="])
    argv = ["-m", "performance", "-r", gen.fnum(t), "-b", b, "-simple"]
    fig, case = run(ctx, paths, argv, ds)
    if fig is None:
        return
    F = len(ds["inputs"])
    distinct = 0
    for k in range(F):
        ls = fig.lines(0, ds["inputs"][k]["name"])
        if len(ls) != 1:
            ctx.violation("performance|series-missing", "no marker for input %d" % k, case)
            continue
        gx, gy = fig.xy(ls[0])
        tab = _table(pairs(ds, k), b, t)
        far = refmetrics.categorical("far", *tab)
        pod = refmetrics.categorical("hit", *tab)
        compare_series(ctx, "performance", "success ratio 1-FAR input %d (table %s)" % (k, tab), gx, [1 - far], case)
        compare_series(ctx, "performance", "probability of detection input %d" % k, gy, [pod], case)
        distinct = 2
    done(ctx, "performance", argv, kind, F, distinct)


def d_taylor(ctx, rng, ds, paths, kind):
    argv = ["-m", "taylor"]
    fig, case = run(ctx, paths, argv, ds)
    if fig is None:
        return
    F = len(ds["inputs"])
    for k in range(F):
        ls = fig.lines(0, ds["inputs"][k]["name"])
        if len(ls) != 1:
            ctx.violation("taylor|series-missing", "no marker for input %d" % k, case)
            continue
        gx, gy = fig.xy(ls[0])
        p = pairs(ds, k)
        o = [a for a, b in p]
        f = [b for a, b in p]
        r = refmetrics.pearson(o, f)
        s = refmetrics.pstd(f)
        compare_series(ctx, "taylor", "x = std(fcst) * corr input %d" % k, gx, [s * r], case, 1e-6, 1e-7)
        compare_series(ctx, "taylor", "y = std(fcst) * sqrt(1-corr^2) input %d" % k, gy, [NAN if r != r else s * math.sqrt(max(0.0, 1 - r * r))], case, 1e-5, 1e-6)
    lo = fig.lines(0, "Observed")
    if lo:
        gx, gy = fig.xy(lo[0])
        o = [a for a, b in pairs(ds, F - 1)]
        compare_series(ctx, "taylor", "observation marker at std(obs)", gx[:1], [refmetrics.pstd(o)], case)
    done(ctx, "taylor", argv, kind, F, 2)


def d_error(ctx, rng, ds, paths, kind):
    argv = ["-m", "error"]
    fig, case = run(ctx, paths, argv, ds)
    if fig is None:
        return
    F = len(ds["inputs"])
    for k in range(F):
        ls = fig.lines(0, ds["inputs"][k]["name"])
        if len(ls) != 1:
            ctx.violation("error|series-missing", "no marker for input %d" % k, case)
            continue
        gx, gy = fig.xy(ls[0])
        p = pairs(ds, k)
        bias = refmetrics.mean([a - b for a, b in p])
        rmse = math.sqrt(refmetrics.mean([(a - b) ** 2 for a, b in p]))
        compare_series(ctx, "error", "systematic error mean(obs-fcst) input %d" % k, gy, [bias], case)
        unsys = math.sqrt(max(0.0, rmse ** 2 - bias ** 2))
        if unsys < 1e-6 * max(1.0, rmse) and len(gx) == 1 and (gx[0] != gx[0] or abs(gx[0]) < 1e-5):
            ctx.count("series_compared")     # pure cancellation regime (constant error): 0 and NaN are both accepted
        else:
            compare_series(ctx, "error", "unsystematic error sqrt(rmse^2-bias^2) input %d" % k, gx, [unsys], case, 1e-5, 1e-6)
    done(ctx, "error", argv, kind, F, 2)


DIAGRAMS = {"standard": d_standard, "obsfcst": d_obsfcst, "qq": d_qq, "scatter": d_scatter, "freq": d_freq, "freq-noobs": d_freq_noobs, "cond": d_cond,
            "hist": d_hist, "sort": d_sort, "pithist": d_pithist, "reliability": d_reliability, "discrimination": d_discrimination,
            "roc": d_roc, "performance": d_performance, "taylor": d_taylor, "error": d_error}


# ------------------------------------------------------------------ driver

def run(ctx, paths, argv, ds):
    case = {"ds": ds, "argv": argv}
    o = runner.run_cli(paths + argv, keep_fig=True)
    ctx.count("figures")
    if o.status == "crash":
        ctx.violation("%s|crash|%s@%s" % (argv[1], o.exc_type, o.where), "verif <files> %s\n%s" % (" ".join(argv), o.tb), case)
        return None, case
    if o.status != "ok" or o.fig is None or not o.fig.axes:
        ctx.note("no figure for %s: %s" % (argv, o.brief()))
        ctx.count("no_figure")
        return None, case
    return Fig(o.fig), case


def done(ctx, diagram, argv, kind, F, distinct):
    import matplotlib.pyplot as mpl
    mpl.close("all")
    opts = "+".join(a for a in argv[2:] if a.startswith("-"))
    ctx.case("%s|%s|%s|F%d" % (diagram, opts, kind, F), distinct >= 2, {"argv": argv, "dataset": kind, "inputs": F})


def make(rng, kind, F=None):
    F = F or rng.choice([1, 2, 2, 3])
    if kind == "ens":
        return gen.make_dataset(rng, n_inputs=F, ens=True, members=3, miss=rng.choice([0.0, 0.1]), sparse=0.0, max_t=4, max_l=4, max_s=3,
                                vrange=(0, 14), fmt="text")
    if kind == "prob":
        return gen.make_dataset(rng, n_inputs=F, prob=True, pit=True, miss=rng.choice([0.0, 0.1]), sparse=0.0,
                                thresholds=[0.0, 5.0, 10.0], quantiles=[0.1, 0.5, 0.9], max_t=6, max_l=5, max_s=4, vrange=(0, 14))
    return gen.make_dataset(rng, n_inputs=F, miss=rng.choice([0.0, 0.1, 0.2]), sparse=rng.choice([0.0, 0.1]), max_t=6, max_l=5, max_s=4,
                            vrange=(0, 14), integerish=rng.random() < 0.3)


def boost_p1(rng, ds):
    """make sure probabilities exactly 0 and 1 occur"""
    for inp in ds["inputs"]:
        for c in inp["cells"].values():
            if c.get("p") and rng.random() < 0.25:
                n = len(c["p"])
                j = rng.randint(0, n)
                c["p"] = [0.0 if i < j else 1.0 for i in range(n)]


# diagrams that evaluate every input against its own observations, input by input
DIFFERENT_OBS_OK = ("reliability", "discrimination", "roc", "marginal", "igncontrib", "economicvalue", "bsdecomp", "invreliability")


def run_shard(desc, ctx):
    rng = random.Random("C16-%s-%s" % (desc["seed"], desc["k"]))
    table = dict(DIAGRAMS)
    table.update(c16_more.DIAGRAMS)
    for name in desc["diagrams"]:
        for ci in range(desc["n"]):
            kind = "prob" if (name in c16_more.PROB or name in ("pithist", "reliability", "discrimination", "roc")) else rng.choice(["det", "prob"])
            if name in c16_more.ENS:
                kind = "ens"
            ds = make(rng, kind, F=c16_more.FIXED_F.get(name))
            if kind == "prob":
                boost_p1(rng, ds)
            if name in DIFFERENT_OBS_OK and len(ds["inputs"]) >= 2 and rng.random() < 0.4:
                # files from different sources may store different observations for the same case (another sensor, another
                # quality control): each input's curve is drawn from its own observations
                for j, inp in enumerate(ds["inputs"][1:]):
                    for c in inp["cells"].values():
                        if c.get("obs") is not None and rng.random() < 0.5:
                            c["obs"] = max(0.0, c["obs"] + rng.choice([-3.0, 3.0, 6.0]))
                ctx.count("datasets_with_different_observations_per_input")
            d = os.path.join(ctx.workdir, "%s-%d" % (name, ci))
            os.makedirs(d, exist_ok=True)
            paths, _ = gen.materialize(ds, d, None)
            try:
                table[name](ctx, rng, ds, paths, kind)
            except Exception as e:
                import traceback
                ctx.violation("harness-or-figure-structure|%s|%s" % (name, type(e).__name__),
                              "reading back the %s figure failed: %s" % (name, traceback.format_exc()[-1200:]), {"ds": ds})
            import matplotlib.pyplot as mpl
            mpl.close("all")


def replay(case, ctx):
    names = sorted(DIAGRAMS) + sorted(c16_more.DIAGRAMS)
    name = None
    if case and "argv" in case:
        a = case["argv"]
        name = a[1] if a[1] in names else ("hist" if "-hist" in a else "sort" if "-sort" in a else "standard")
    run_shard({"seed": 0, "k": 0, "n": 2, "diagrams": [name] if name in names else names[:4]}, ctx)
