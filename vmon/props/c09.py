"""C09 Text input files are read faithfully."""
import os
import random

from vmon import gen, vutil

RULE = ("random well-formed text files: dimension sizes 1-6, column subsets (date+hour | date | unixtime | none; leadtime "
        "| offset | none; location | id | neither; altitude | elev | neither; lat/lon optional; obs/fcst optional; "
        "p<threshold>, q<quantile>, e<member>, pit and other-score columns), random column order, whitespace "
        "separators, shuffled rows, sparsity 0-60%, seven missing-value tokens, comment lines ('#', '# text', '#text') and "
        "'# variable/units/x0/x1' lines anywhere; verif.input.Text is then compared attribute by attribute and cell by "
        "cell with the generating dictionary. signature = (column-name set, sparsity class, token set, comment class); "
        "non-trivial = at least two of: permuted columns, shuffled rows, sparse rows, optional columns.")
RULE += " " + 'Decimal values beyond single precision in every field.'
RULE += " " + 'Rounds 9-10: member columns with 1-based or arbitrary ascending labels.'
RULE += " " + 'Rounds 11-12: metadata lines after the header, between rows or at the end of the file.'
RULE += " " + 'Rounds 13-14: the numeric part of p/q/e column names in other spellings of the same number (p1e1, p+2, q.5, q9e-1, e+1, e01, p5.0).'
ASSUMPTIONS = ["no duplicated (time, lead time, location) rows; locations without an id column are identified by lat/lon/elev",
               "numbers in the file are short exact decimals"]
REQUIRED_COUNTERS = ["files_read", "cells_compared", "locations_compared", "metadata_checks"]
ANCHOR_FUNCS = ["Text.__init__"]

NAN = float("nan")
OTHERS = ["spread", "tmin", "pop", "quality", "extra1", "elevation"]


def plan(tier, seed):
    n = 100 if tier == "quick" else 1500
    return [{"seed": seed, "k": k, "n": n} for k in range(16)]


def gen_case(rng):
    st = {"time": rng.choice(["unixtime", "date+hour", "date+hour", "date", "none"]),
          "lead": rng.choice(["leadtime", "offset", "leadtime", None]),
          "loc": rng.choice(["location", "id"]), "has_loc": rng.random() < 0.8,
          "elev": rng.choice(["elev", "altitude"]), "has_elev": rng.random() < 0.7,
          "latlon": rng.random() < 0.7,
          "shuffle_rows": rng.random() < 0.7, "shuffle_cols": rng.random() < 0.7,
          "tokens": rng.sample(gen.MISSING_TOKENS_TEXT, rng.randint(1, 4)),
          "sep": rng.choice([" ", "  ", "\t", " \t ", "   "]), "meta": rng.random() < 0.7, "comments": []}
    if not st["has_loc"] and not st["latlon"] and not st["has_elev"]:
        nS = 1
    else:
        nS = rng.randint(1, 5)
    nT = 1 if st["time"] == "none" else rng.randint(1, 6)
    nL = 1 if st["lead"] is None else rng.randint(1, 6)
    if st["time"] == "date":
        times = gen.pick_times(rng, nT, hours=[0])
    elif st["time"] == "none":
        times = [0]
    else:
        times = gen.pick_times(rng, nT, hours=list(range(24)))
        if rng.random() < 0.2:
            times = sorted(set(t + 1800 for t in times))      # half hours
    leads = [0] if st["lead"] is None else sorted(rng.sample([0, 1, 1.5, 3, 6, 12, 18, 24, 36, 48, 240, 0.25], nL))
    pool = [list(x) for x in gen.LOC_POOL]
    if not st["has_loc"]:
        # locations are told apart by lat/lon/elev only: make those pairwise different in the columns present
        locs = []
        seen = set()
        for x in rng.sample(pool, len(pool)):
            keyp = ((x[1], x[2]) if st["latlon"] else ()) + ((x[3],) if st["has_elev"] else ())
            if keyp in seen:
                continue
            seen.add(keyp)
            locs.append(x)
            if len(locs) == nS:
                break
    else:
        locs = rng.sample(pool, nS)
    has = []
    if rng.random() < 0.85:
        has.append("obs")
    if rng.random() < 0.85:
        has.append("fcst")
    if rng.random() < 0.3:
        has.append("pit")
    thresholds = sorted(rng.sample([-5.0, 0.0, 0.5, 2.0, 5.0, 10.0, 12.5, 100.0], rng.randint(1, 3))) if rng.random() < 0.4 else []
    quantiles = sorted(rng.sample([0.0, 0.1, 0.25, 0.5, 0.75, 0.9, 1.0], rng.randint(1, 3))) if rng.random() < 0.4 else []
    members = rng.randint(1, 4) if rng.random() < 0.3 else 0
    others = rng.sample(OTHERS, rng.randint(1, 2)) if rng.random() < 0.3 else []
    if not has and not thresholds and not quantiles:
        has = ["fcst"]
    var = {"name": rng.choice(["Temperature", "Precip", "Wind speed at 10 m"]), "units": rng.choice(["C", "mm", "m/s", "%"]),
           "x0": rng.choice([None, 0.0]), "x1": rng.choice([None, None, 100.0])}
    if not st["meta"]:
        var = {"name": None, "units": None, "x0": None, "x1": None}
    sparse = rng.choice([0.0, 0.0, 0.2, 0.6])
    inp = gen.make_input(rng, "t.txt", "text", times, leads, locs, has=has, thresholds=thresholds, quantiles=quantiles,
                         members=members, others=others, miss=rng.choice([0.0, 0.1, 0.3]), sparse=sparse, variable=var,
                         consistent_cdf=False)
    # genuine numbers at or below the missing marker (-1000, -9999, a sea-floor elevation) are data, not missing
    if rng.random() < 0.3:
        for c in inp["cells"].values():
            for f in ("obs", "fcst"):
                if c.get(f) is not None and rng.random() < 0.2:
                    c[f] = rng.choice([-1000.0, -1500.25, -9999.0, -999.5, -998.75])
            if c.get("o"):
                for n in c["o"]:
                    if c["o"][n] is not None and rng.random() < 0.2:
                        c["o"][n] = rng.choice([-1000.0, -9999.0])
        if st["has_elev"] and rng.random() < 0.5:
            inp["locs"][0][3] = -1200.0
    # decimal values with more digits than single precision holds: a text file's numbers are read as doubles, in every field
    if rng.random() < 0.3:
        DEC = [0.1, 2.3, 1234.5678, 0.123456789, -7.000001, 1e-05, 273.15, 99.99999]
        for c in inp["cells"].values():
            for f in ("obs", "fcst", "pit"):
                if c.get(f) is not None and rng.random() < 0.5:
                    c[f] = rng.choice(DEC) if f != "pit" else rng.choice([0.1, 0.123456789, 0.7, 0.99999])
            for f in ("p", "q", "e"):
                if c.get(f):
                    c[f] = [v if (v is None or rng.random() < 0.5) else (rng.choice(DEC) if f != "p" else rng.choice([0.1, 0.3, 0.123456789]))
                            for v in c[f]]
            if c.get("o"):
                for n in c["o"]:
                    if c["o"][n] is not None and rng.random() < 0.5:
                        c["o"][n] = rng.choice(DEC)
    # rows of one station that disagree on its latitude (verif warns and keeps the first): values must survive
    if st["has_loc"] and st["latlon"] and rng.random() < 0.15:
        st["conflict"] = {gen.fnum(l[0]): 0.5 for l in rng.sample(inp["locs"], 1)}
    if members and rng.random() < 0.4:
        # member columns need not be numbered 0..N-1 (1-based files, a subset of a larger ensemble)
        if rng.random() < 0.5:
            st["member_labels"] = list(range(1, members + 1))
        else:
            st["member_labels"] = sorted(rng.sample(range(0, 30), members))
    if (thresholds or quantiles or members) and rng.random() < 0.4:
        st["header_spelling"] = True      # p1e1, p+2, q.5, q9e-1, e+1, e01 ...: the numeric part in another spelling
    inp["style"] = st
    ccls = rng.choice(["none", "text", "bare", "nospace"])
    return {"inp": inp, "comment_class": ccls, "sparse": sparse}


def add_comments(path, ccls, rng):
    if ccls == "none":
        return
    lines = open(path).read().split("\n")
    extra = {"text": "# this is a comment", "bare": "#", "nospace": "#comment without space"}[ccls]
    pos = sorted(rng.sample(range(0, max(1, len(lines) - 1)), min(2, max(1, len(lines) - 1))))
    for p in reversed(pos):
        lines.insert(p, extra)
    if ccls == "bare":
        lines.insert(0, "# ")
    open(path, "w").write("\n".join(lines))


def move_metadata(path, rng):
    """the '# variable/units/x0/x1' lines may stand anywhere in the file: after the header, between rows, at the end"""
    lines = [l for l in open(path).read().split("\n")]
    while lines and lines[-1] == "":
        lines.pop()
    ismeta = lambda l: l.startswith("# variable:") or l.startswith("# units:") or l.startswith("# x0:") or l.startswith("# x1:")
    meta = [l for l in lines if ismeta(l)]
    rest = [l for l in lines if not ismeta(l)]
    hdr = [i for i, l in enumerate(rest) if l.strip() and not l.startswith("#")]
    mode = rng.choice(["top", "top", "after-header", "end", "spread"])
    if not meta or not hdr or mode == "top":
        return "top"
    h = hdr[0]
    if mode == "after-header":
        rest[h + 1:h + 1] = meta
    elif mode == "end":
        rest += meta
    else:
        for m in meta:
            rest.insert(rng.randint(h + 1, len(rest)), m)
    open(path, "w").write("\n".join(rest) + "\n")
    return mode


def effective(inp):
    """What a reader can know: dims that occur in rows; zeros for absent metadata columns."""
    st = inp["style"]
    locs = []
    for l in inp["locs"]:
        lat = l[1] if st["latlon"] else 0.0
        lon = l[2] if st["latlon"] else 0.0
        elev = l[3] if st["has_elev"] else 0.0
        locs.append([l[0] if st["has_loc"] else None, lat, lon, elev, l[0]])
    return locs


def run_case(case, ctx):
    import numpy as np
    import verif.input
    inp = case["inp"]
    st = inp["style"]
    d = os.path.join(ctx.workdir, "f%d" % ctx.evaluations)
    os.makedirs(d, exist_ok=True)
    rng = random.Random(str(sorted(inp["cells"]))[:200])
    path = gen.write_text(inp, os.path.join(d, "t.txt"), rng)
    add_comments(path, case["comment_class"], rng)
    ctx.count("metadata_lines:" + move_metadata(path, random.Random("meta" + str(sorted(inp["cells"]))[:200])))
    case = dict(case, text=open(path).read()[:6000])
    cols = st["cols"]
    if st.get("header_as_written") and st["header_as_written"] != cols:
        ctx.count("files_with_respelled_numeric_headers")
    feats = sum([st["shuffle_cols"], st["shuffle_rows"], case["sparse"] > 0,
                 bool(inp["thresholds"] or inp["quantiles"] or inp["members"] or inp["others"] or "pit" in inp["has"])])
    ctx.case("%s|sp%s|tok%d|%s" % ("+".join(sorted(cols)), case["sparse"], len(st["tokens"]), case["comment_class"]), feats >= 2,
             {"header": cols, "rows": len(inp["cells"]), "comment_class": case["comment_class"], "first_lines": case["text"].split("\n")[:4]})
    try:
        t = verif.input.Text(path)
    except SystemExit:
        ctx.violation("text-rejected", "a well-formed text file was rejected with an error", case)
        return
    except Exception as e:
        ctx.violation("text-exception|%s|comments=%s" % (type(e).__name__, case["comment_class"]),
                      "reading a well-formed text file raised %r" % e, case)
        return
    ctx.count("files_read")
    # dimensions
    if [float(x) for x in t.times] != [float(x) for x in inp["times"]]:
        ctx.violation("text-times", "times %s, file has %s" % (list(t.times), inp["times"]), case)
        return
    if [float(x) for x in t.leadtimes] != [float(x) for x in inp["leadtimes"]]:
        ctx.violation("text-leadtimes", "leadtimes %s, file has %s" % (list(t.leadtimes), inp["leadtimes"]), case)
        return
    eff = effective(inp)
    vlocs = list(t.locations)
    if len(vlocs) != len(eff):
        ctx.violation("text-location-count", "%d locations read, file has %d" % (len(vlocs), len(eff)), case)
        return
    # map verif's location index -> our location (by id if present, else by metadata)
    index = {}
    for e in eff:
        cf = (st.get("conflict") or {}).get(gen.fnum(e[4])) if e[0] is not None else None
        match = [j for j, v in enumerate(vlocs)
                 if (e[0] is None or float(v.id) == float(e[0])) and (abs(v.lat - e[1]) < 1e-9 or (cf and abs(v.lat - e[1] - cf) < 1e-9))
                 and abs(v.lon - e[2]) < 1e-9 and abs(v.elev - e[3]) < 1e-9]
        ctx.count("locations_compared")
        if len(match) != 1:
            ctx.violation("text-location-metadata", "location %s (id, lat, lon, elev as the file gives them) matches %d of the locations "
                          "read: %s" % (e[:4], len(match), [(v.id, v.lat, v.lon, v.elev) for v in vlocs]), case)
            return
        index[e[4]] = match[0]
    if not st["has_loc"]:
        ids = sorted(float(v.id) for v in vlocs)
        if ids != [float(i) for i in range(len(vlocs))]:
            ctx.violation("text-generated-ids", "files without an id column get ids %s" % ids, case)
    # thresholds / quantiles / members recognised with their numeric values
    ctx.count("metadata_checks")
    if sorted(float(x) for x in t.thresholds) != sorted(inp["thresholds"]):
        ctx.violation("text-thresholds", "thresholds %s, header has %s" % (sorted(t.thresholds), inp["thresholds"]), case)
        return
    if sorted(float(x) for x in t.quantiles) != sorted(inp["quantiles"]):
        ctx.violation("text-quantiles", "quantiles %s, header has %s" % (sorted(t.quantiles), inp["quantiles"]), case)
        return
    if t.num_members != inp["members"]:
        ctx.violation("text-members", "%d members read, header has %d" % (t.num_members, inp["members"]), case)
        return
    # (the pit column is additionally listed among the 'other' fields by both readers: harmless, not demanded)
    if sorted(set(t.other_fields) - set(["pit"])) != sorted(inp["others"]):
        ctx.violation("text-other-fields", "other fields %s, header has %s" % (sorted(t.other_fields), inp["others"]), case)
        return
    for f in ("obs", "fcst", "pit"):
        arr = getattr(t, f)
        some = any(c.get(f) is not None for c in inp["cells"].values())
        if f in inp["has"] and arr is None and some:
            ctx.violation("text-field-missing|%s" % f, "column %s present but attribute is None" % f, case)
            return
        if f not in inp["has"] and arr is not None:
            ctx.violation("text-field-invented|%s" % f, "no %s column but attribute is not None" % f, case)
            return
    v = inp["variable"]
    want_name = v["name"] if v["name"] is not None else "Unknown variable"
    want_units = v["units"] if v["units"] is not None else "Unknown units"
    got = t.variable
    if got.name != want_name or got.units != want_units or got.x0 != v["x0"] or got.x1 != v["x1"]:
        ctx.violation("text-variable-metadata", "variable (%r, %r, x0=%r, x1=%r), file says (%r, %r, x0=%r, x1=%r)"
                      % (got.name, got.units, got.x0, got.x1, want_name, want_units, v["x0"], v["x1"]), case)
    # cells
    thr_idx = {float(x): j for j, x in enumerate(t.thresholds)}
    q_idx = {float(x): j for j, x in enumerate(t.quantiles)}
    for a, tt in enumerate(inp["times"]):
        for b, l in enumerate(inp["leadtimes"]):
            for loc in inp["locs"]:
                c = index[loc[0]]
                cell = inp["cells"].get(gen.ck(tt, l, loc[0]))
                checks = []
                for f in ("obs", "fcst", "pit"):
                    arr = getattr(t, f)
                    if arr is not None:
                        checks.append((f, arr[a, b, c], None if cell is None else cell.get(f)))
                for j, th in enumerate(inp["thresholds"]):
                    checks.append(("p%s" % gen.fnum(th), t.threshold_scores[a, b, c, thr_idx[th]],
                                   None if cell is None or cell.get("p") is None else cell["p"][j]))
                for j, q in enumerate(inp["quantiles"]):
                    checks.append(("q%s" % gen.fnum(q), t.quantile_scores[a, b, c, q_idx[q]],
                                   None if cell is None or cell.get("q") is None else cell["q"][j]))
                for m in range(inp["members"]):
                    checks.append(("e%d" % m, t.ensemble[a, b, c, m], None if cell is None or cell.get("e") is None else cell["e"][m]))
                for o in inp["others"]:
                    checks.append((o, t.other_score(o)[a, b, c], None if cell is None else (cell.get("o") or {}).get(o)))
                for name, gotv, want in checks:
                    ctx.count("cells_compared")
                    if not vutil.num_equal(float(gotv), NAN if want is None else want, 0, 1e-12):
                        kind = "absent-row" if cell is None else ("missing-token" if want is None else "value")
                        ctx.violation("text-cell|%s" % kind, "column %s at (time %s, lead %s, location %s): read %r, file has %r"
                                      % (name, tt, l, loc[0], float(gotv), want), case)
                        return


def run_shard(desc, ctx):
    rng = random.Random("C09-%s-%s" % (desc["seed"], desc["k"]))
    for _ in range(desc["n"]):
        run_case(gen_case(rng), ctx)


def replay(case, ctx):
    run_case({"inp": case["inp"], "comment_class": case["comment_class"], "sparse": case.get("sparse", 0)}, ctx)
