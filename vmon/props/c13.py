"""C13 Command-line options mean what the help text says."""
import os
import random
import subprocess
from fractions import Fraction

from vmon import attach, gen, refcli, refmetrics, refmodel, runner, vutil

RULE = ("(a) vector syntax on a full grid start x step x end of decimals (steps >= 0.001 as the docstring limits; "
        "a:b, a:s:b incl. negative steps, comma lists, mixtures) against exact rational enumeration including the end "
        "point; (b) date ranges a:b and a:k:b across month/year/leap boundaries against an independent calendar; (c) "
        "the documented rejection list (unknown flag, flag without value, malformed vectors, unknown -x/-agg/-Tagg, "
        "missing/invalid files, ranges without two values, -T <= 0, -q outside [0,1], unknown -type, legend count) in "
        "several spellings, in-process and as a real /venv/bin/verif subprocess: must end with a message and non-zero "
        "status, never a traceback; (d) grammar-generated command lines (random option subsets, values and orders "
        "over generated datasets) compared with a reference interpreter of the help text, each also with shuffled "
        "option order and through --config; --list-times/--list-dates/--list-locations. signature = (sorted option "
        "set, order class, error class); non-trivial = >= 3 options or a rejection case.")
RULE += " " + 'Long -d lists on long series; tables WITHOUT -r (the printed automatic thresholds define the reference); -acc over an all-missing lead time; -T/-Tagg/-Tx on text inputs against trailing-window reference values; quantile bin semantics; shards rotate the process time zone.'
RULE += " " + 'Rounds 9-10: -m obsfcst -q [-leg] tables in random option order.'
RULE += " " + 'Rounds 13-14: an out-of-range quantile level at any position of the -q list (first, middle, last, descending range) is rejected.'
ASSUMPTIONS = ["vector steps are >= 0.001 and values have <= 3 decimals (the docstring warns about round-off below 1e-4)",
               "the reference interpreter (vmon.refcli) encodes DESIGN.md appendix B"]
REQUIRED_COUNTERS = ["vector_cases", "date_cases", "reject_inproc", "reject_subproc", "semantic_lines", "order_variants",
                     "config_variants", "multi_config_variants", "list_checks"]
ROTATE_TZ = True       # dates, times of day and time labels are UTC whatever the time zone of the machine
ANCHOR_FUNCS = ["util.parse_numbers", "driver.run"]
TIMEOUT = {"quick": 1500, "thorough": 7200}


def plan(tier, seed):
    shards = [{"part": "vectors", "k": k, "of": 4} for k in range(4)]
    shards += [{"part": "dates", "seed": seed}]
    shards += [{"part": "reject", "seed": seed, "k": k, "of": 6} for k in range(6)]
    shards += [{"part": "qbins", "seed": seed, "k": k, "tier": tier} for k in range(2)]
    n = 25 if tier == "quick" else 700
    shards += [{"part": "semantic", "seed": seed, "k": k, "n": n} for k in range(9)]
    return shards


# ------------------------------------------------------------------ (a) vectors

def frange(start, step, end):
    out = []
    s, st, e = Fraction(start), Fraction(step), Fraction(end)
    v = s
    if st > 0:
        while v <= e:
            out.append(float(v))
            v += st
    else:
        while v >= e:
            out.append(float(v))
            v += st
    return out


def run_vectors(desc, ctx):
    import verif.util
    starts = ["-5", "-1.5", "-0.001", "0", "0.001", "0.1", "0.25", "1", "2.5", "3", "10", "99.9", "1000"]
    steps = ["0.001", "0.01", "0.1", "0.2", "0.25", "0.3", "0.5", "1", "2", "2.5", "7", "10", "-0.5", "-1", "-0.1"]
    ends = ["-5", "-1.5", "0", "0.001", "0.3", "0.9", "1", "2.5", "3", "5", "10", "12", "100"]
    idx = 0
    for s in starts:
        for st in steps:
            for e in ends:
                idx += 1
                if idx % desc["of"] != desc["k"]:
                    continue
                want = frange(s, st, e)
                if len(want) > 3000:
                    continue
                text = "%s:%s:%s" % (s, st, e)
                _check_vec(ctx, text, want, "a:s:b", verif.util)
        for e in ends:
            idx += 1
            if idx % desc["of"] != desc["k"]:
                continue
            want = frange(s, "1", e)
            if len(want) > 3000:
                continue
            _check_vec(ctx, "%s:%s" % (s, e), want, "a:b", verif.util)
    if desc["k"] == 0:
        combos = [("3", [3.0]), ("3,4,5", [3.0, 4.0, 5.0]), ("3:5", [3.0, 4.0, 5.0]), ("3:2:12", [3, 5, 7, 9, 11]),
                  ("3,4:6,2:5:9,6", [3, 4, 5, 6, 2, 7, 6]), ("0.1:0.1:0.9", [round(0.1 * i, 7) for i in range(1, 10)]),
                  ("-2,-1.5:0.5:0", [-2, -1.5, -1, -0.5, 0]), ("5:-1:3", [5, 4, 3]), ("1,1", [1, 1]), ("7:7", [7]),
                  ("0:0.25:1,10", [0, 0.25, 0.5, 0.75, 1, 10])]
        for text, want in combos:
            _check_vec(ctx, text, [float(w) for w in want], "mix", verif.util)
        # random comma lists of 2-4 segments (single values, a:b, a:s:b in any order): each segment is independent
        rng = random.Random(20260929)
        for _ in range(400):
            segs, want = [], []
            for _k in range(rng.randint(2, 4)):
                kind = rng.choice(["single", "range", "step", "step"])
                a = rng.choice([0, 1, 2, 3, 5, 10, 0.5, -2])
                if kind == "single":
                    segs.append(gen.fnum(a))
                    want.append(float(a))
                elif kind == "range":
                    b = a + rng.randint(0, 4)
                    segs.append("%s:%s" % (gen.fnum(a), gen.fnum(b)))
                    want += frange(gen.fnum(a), "1", gen.fnum(b))
                else:
                    st = rng.choice(["2", "0.5", "3", "0.25", "-1"])
                    b = a + rng.randint(1, 6) * (1 if not st.startswith("-") else -1)
                    segs.append("%s:%s:%s" % (gen.fnum(a), st, gen.fnum(b)))
                    want += frange(gen.fnum(a), st, gen.fnum(b))
            _check_vec(ctx, ",".join(segs), want, "segments", verif.util)


def _check_vec(ctx, text, want, cls, util):
    ctx.count("vector_cases")
    ctx.case("vec|%s|n%s" % (cls, "0" if not want else "1" if len(want) == 1 else "many"), cls != "single" and len(want) >= 1,
             {"arg": text, "documented": want[:8], "n": len(want)})
    try:
        got = util.parse_numbers(text)
    except SystemExit:
        ctx.violation("vector-rejected|%s" % cls, "parse_numbers(%r) exited, documented %s" % (text, want[:10]), {"arg": text})
        return
    except Exception as e:
        ctx.violation("vector-exception|%s" % cls, "parse_numbers(%r) raised %r" % (text, e), {"arg": text})
        return
    got = [float(g) for g in got]
    if len(got) != len(want) or any(abs(a - b) > 1e-6 for a, b in zip(got, want)):
        ctx.violation("vector-values|%s" % cls, "parse_numbers(%r) = %s (n=%d), documented %s (n=%d)"
                      % (text, got[:12], len(got), want[:12], len(want)), {"arg": text})


# ------------------------------------------------------------------ (b) dates

def date_int(days):
    y, m, d, _, _, _ = gen.unix_to_civil(days * 86400)
    return y * 10000 + m * 100 + d


def run_dates(desc, ctx):
    import verif.util
    rng = random.Random("C13-dates-%s" % desc["seed"])
    anchors = [(1999, 12, 25), (2000, 2, 25), (2000, 12, 28), (2001, 2, 26), (2004, 2, 27), (2012, 12, 30), (2013, 1, 1),
               (2016, 2, 28), (2019, 6, 29), (2020, 2, 1), (2100, 2, 26), (1970, 1, 1), (2038, 1, 17)]
    for (y, m, d) in anchors:
        d0 = gen.civil_to_days(y, m, d)
        for span in (0, 1, 3, 7, 10, 35, 62, 370):
            for step in (None, 1, 2, 7, 30):
                a, b = date_int(d0), date_int(d0 + span)
                text = "%d:%d" % (a, b) if step is None else "%d:%d:%d" % (a, step, b)
                want = [date_int(x) for x in range(d0, d0 + span + 1, step or 1)]
                ctx.count("date_cases")
                ctx.case("date|span%d|step%s" % (span, step), span > 0, {"arg": text, "n": len(want)})
                try:
                    got = verif.util.parse_numbers(text, True)
                except BaseException as e:
                    ctx.violation("date-range-exception", "parse_numbers(%r, True) raised %r" % (text, e), {"arg": text})
                    continue
                if list(got) != want:
                    ctx.violation("date-range-values", "parse_numbers(%r, is_date) = %s.. (n=%d), calendar gives %s.. (n=%d)"
                                  % (text, list(got)[:6], len(got), want[:6], len(want)), {"arg": text})
    got = verif.util.parse_numbers("20130101,20130105", True)
    if list(got) != [20130101, 20130105]:
        ctx.violation("date-list", "comma list of dates -> %s" % (got,), {"arg": "20130101,20130105"})
    got = verif.util.parse_numbers("20200225:3:20200229,20200302:20200304", True)
    if list(got) != [20200225, 20200228, 20200302, 20200303, 20200304]:
        ctx.violation("date-list", "stepped date range followed by a plain one -> %s" % (got,), {"arg": "20200225:3:20200229,20200302:20200304"})
    got = verif.util.parse_numbers("20121230:20130102,20130110", True)
    if list(got) != [20121230, 20121231, 20130101, 20130102, 20130110]:
        ctx.violation("date-list", "mixed date list -> %s" % (got,), {"arg": "20121230:20130102,20130110"})


# ------------------------------------------------------------------ (c) rejections

def reject_cases(path, d):
    junk = os.path.join(d, "junk.txt")
    open(junk, "w").write("this is not\na verif file\n")
    hdronly = os.path.join(d, "badcols.txt")
    open(hdronly, "w").write("unixtime leadtime location obs fcst\n0 1 2\n")
    ncbad = os.path.join(d, "bad.nc")
    import netCDF4
    f = netCDF4.Dataset(ncbad, "w")
    f.createDimension("x", 2)
    f.close()
    base = [path, "-m", "mae", "-type", "csv"]
    cases = [
        ("unknown-flag", base + ["-zz", "3"]), ("unknown-flag", base + ["--nothing", "1"]), ("unknown-flag", base + ["-R", "1"]),
        ("flag-without-value", [path, "-type", "csv", "-m"]), ("flag-without-value", base + ["-x"]), ("flag-without-value", base + ["-r"]),
        ("flag-without-value", base + ["-o"]), ("flag-without-value", [path, "-m", "mae", "--config"]),
        ("malformed-vector", base + ["-o", "1,a"]), ("malformed-vector", base + ["-o", "1,,2"]), ("malformed-vector", base + ["-o", "1:"]),
        ("malformed-vector", base + ["-o", ":3"]), ("malformed-vector", base + ["-o", "1:2:3:4"]), ("malformed-vector", base + ["-o", "1:0:3"]),
        ("malformed-vector", base + ["-l", "1;2"]), ("malformed-vector", base + ["-r", "1e3"]), ("malformed-vector", base + ["-o", ","]),
        ("malformed-vector-number", base + ["-o", "1-2"]), ("malformed-vector-number", base + ["-o", "."]),
        ("malformed-vector-number", base + ["-o", "-"]), ("malformed-vector-number", base + ["-o", "1..2"]),
        ("malformed-vector-number", base + ["-o", "1:.:3"]),
        ("unknown-axis", base + ["-x", "foo"]), ("unknown-axis", base + ["-x", "Leadtimes"]), ("unknown-axis", base + ["-Tx", "nope", "-T", "2"]),
        ("unknown-aggregator", base + ["-agg", "average"]), ("unknown-aggregator", base + ["-agg", "2"]),
        ("unknown-aggregator", base + ["-agg", "-0.5"]), ("unknown-aggregator-quantile", base + ["-agg", "quantile"]),
        ("unknown-aggregator", base + ["-Tagg", "avg", "-T", "2"]), ("unknown-aggregator-quantile", base + ["-Tagg", "quantile", "-T", "2"]),
        ("bad-file", [os.path.join(d, "missing.txt"), "-m", "mae", "-type", "csv"]), ("bad-file", [d, "-m", "mae", "-type", "csv"]),
        ("bad-file", [junk, "-m", "mae", "-type", "csv"]), ("bad-file", [hdronly, "-m", "mae", "-type", "csv"]),
        ("bad-file", [ncbad, "-m", "mae", "-type", "csv"]), ("bad-file", base + ["-c", os.path.join(d, "missing.nc")]),
        ("range-arity", base + ["-latrange", "1"]), ("range-arity", base + ["-lonrange", "1,2,3"]), ("range-arity", base + ["-elevrange", "5"]),
        ("range-arity", base + ["-obsrange", "1,2,3"]), ("range-arity", base + ["-obsrange", "1:5"]),
        ("nonpositive-T", base + ["-T", "0"]), ("nonpositive-T", base + ["-T", "-3"]),
        ("quantile-range", [path, "-m", "quantilescore", "-q", "1.5", "-type", "csv"]),
        ("quantile-range", [path, "-m", "quantilescore", "-q", "-0.1", "-type", "csv"]),
        ("quantile-range", [path, "-m", "quantilescore", "-q", "0.5,1.01", "-type", "csv"]),
        # the offending level anywhere in the list (first, middle, last; unsorted and descending-range spellings)
        ("quantile-range", [path, "-m", "quantilescore", "-q", "0.1,1.5,0.9", "-type", "csv"]),
        ("quantile-range", [path, "-m", "quantilescore", "-q", "0.5,-0.2,0.9", "-type", "csv"]),
        ("quantile-range", [path, "-m", "quantilescore", "-q", "1.5,0.5", "-type", "csv"]),
        ("quantile-range", [path, "-m", "quantilescore", "-q", "0.5,-0.5", "-type", "csv"]),
        ("quantile-range", [path, "-m", "quantilescore", "-q", "1.5:-0.5:0", "-type", "csv"]),
        ("quantile-range", base + ["-q", "0.2,1.2,0.8"]), ("quantile-range", base + ["-q", "0.6,-1,0.7,0.8"]),
        ("quantile-range", [path, "--list-quantiles", "-q", "0.3,7,0.4"]),
        ("unknown-type", [path, "-m", "mae", "-type", "table"]), ("unknown-type", [path, "-m", "mae", "-type", "CSV"]),
        ("legend-count", base + ["-leg", "a,b"]), ("legend-count", [path, path, "-m", "mae", "-type", "csv", "-leg", "a"]),
    ]
    return cases


def classify_reject(status, code, out, crash_info=None):
    text = runner.strip_ansi(out)
    if status == "crash":
        return "traceback"
    if status == "ok":
        return "accepted"
    if code in (0, None):
        return "exit-zero"
    if "Error" not in text and not text.strip():
        return "no-message"
    return None


def run_reject(desc, ctx):
    rng = random.Random("C13-rej-%s" % desc["seed"])
    d = os.path.join(ctx.workdir, "rej")
    os.makedirs(d, exist_ok=True)
    ds = gen.make_dataset(rng, n_inputs=1, fmt="text", miss=0.0, sparse=0.0, same_dims=True)
    path = gen.write_input(ds["inputs"][0], d, None)
    env = dict(os.environ)
    for ri, (cls, argv) in enumerate(reject_cases(path, d)):
        if ri % desc.get("of", 1) != desc.get("k", 0):
            continue
        rel = [a if os.sep not in a else os.path.basename(a) for a in argv]
        o = runner.run_cli(argv)
        ctx.count("reject_inproc")
        ctx.case("reject|%s|%s" % (cls, "+".join(a for a in rel if a.startswith("-"))), True, {"argv": rel, "class": cls})
        bad = classify_reject(o.status, o.code, o.stdout)
        if bad:
            where = ("@" + str(o.where)) if o.status == "crash" else ""
            ctx.violation("reject|%s|%s%s" % (cls, bad, where), "verif %s : %s (%s)" % (" ".join(rel), bad, o.brief()),
                          {"argv": rel, "class": cls})
        # real process: status from the OS
        try:
            r = subprocess.run(["/venv/bin/verif"] + argv, stdout=subprocess.PIPE, stderr=subprocess.PIPE, text=True, timeout=120,
                               env=env)
        except subprocess.TimeoutExpired:
            ctx.note("subprocess timeout for %s" % rel)
            continue
        ctx.count("reject_subproc")
        if r.returncode == 0:
            bad2 = "accepted" if bad == "accepted" else "exit-zero"
            ctx.violation("reject-subprocess|%s|%s" % (cls, bad2), "verif %s exited with status 0\nstdout: %s" % (" ".join(rel), r.stdout[-300:]),
                          {"argv": rel, "class": cls})
        elif "Traceback" in r.stderr:
            if not bad:
                ctx.violation("reject-subprocess|%s|traceback" % cls, "verif %s : traceback only in the real process\n%s"
                              % (" ".join(rel), r.stderr[-500:]), {"argv": rel, "class": cls})
        elif not (r.stdout.strip() or r.stderr.strip()):
            ctx.violation("reject-subprocess|%s|no-message" % cls, "verif %s : status %d without a message" % (" ".join(rel), r.returncode),
                          {"argv": rel, "class": cls})


# ------------------------------------------------------------------ (d) semantics

DET = ["mae", "bias", "rmse", "corr", "stderror", "mbias", "dmb", "ef", "derror", "diff", "ratio", "cmae", "nsec", "kge",
       "rankcorr", "obs", "fcst"]
CAT = ["ets", "hit", "fa", "far", "a", "b", "c", "d", "n", "hss", "kss", "pc", "threat", "biasfreq", "baserate", "yulesq", "within"]
AGGS = ["mean", "median", "min", "max", "std", "variance", "range", "count", "sum", "meanabs", "absmean"]


def gen_spec(rng, ds):
    times, leads, locs = refmodel.common_dims(ds)
    spec = {"type": "csv"}
    if rng.random() < 0.6:
        spec["metric"] = rng.choice(DET)
        if spec["metric"] in ("mae", "bias", "rmse", "diff", "ratio", "cmae", "obs", "fcst") and rng.random() < 0.5:
            spec["agg"] = rng.choice(AGGS)
        if rng.random() < 0.8:
            spec["axis"] = rng.choice(refmodel.ALL_AXES)
    else:
        spec["metric"] = rng.choice(CAT)
        vals = sorted(set(v for c in ds["inputs"][0]["cells"].values() for v in (c.get("obs"), c.get("fcst")) if v is not None))
        k = rng.randint(1, 3)
        if spec["metric"] == "within":
            spec["thresholds"] = sorted(rng.sample([0.5, 1.0, 2.0, 3.5, 5.0, 10.0], k))
        else:
            spec["thresholds"] = sorted(rng.sample(vals, min(k, len(vals)))) if vals else [0.0]
        if rng.random() < 0.7:
            spec["bin"] = rng.choice(list(attach.BIN_TABLE))
            ul, lc, uu, uc = attach.BIN_TABLE[spec["bin"]]
            if ul and uu and len(spec["thresholds"]) < 2:
                spec["thresholds"] = sorted(set(spec["thresholds"] + [spec["thresholds"][0] + 2.5]))
        if rng.random() < 0.6:
            spec["axis"] = rng.choice(refmodel.ALL_AXES + ["threshold"])
    opts = {}
    if rng.random() < 0.35 and len(leads) > 1:
        opts["leadtimes"] = sorted(rng.sample(leads, rng.randint(1, len(leads))))
    if rng.random() < 0.3 and len(locs) > 1:
        opts["locations"] = sorted(l[0] for l in rng.sample(locs, rng.randint(1, len(locs))))
    if rng.random() < 0.2 and len(locs) > 1:
        x = rng.choice(locs)[0]
        if opts.get("locations") != [x]:
            opts["locations_x"] = [x]
    if rng.random() < 0.2 and len(times) > 1:
        opts["times"] = sorted(rng.sample(times, rng.randint(1, len(times))))
    if rng.random() < 0.2:
        lats = sorted(l[1] for l in locs)
        opts["latrange"] = [lats[0], lats[len(lats) // 2]]
    if rng.random() < 0.15:
        opts["obsrange"] = [rng.choice([-5.0, 0.0, 2.0]), rng.choice([10.0, 15.0, 40.0])]
    if rng.random() < 0.15 and len(times) > 1:
        opts["dates"] = sorted(set(refmodel.date_of(t) for t in rng.sample(times, rng.randint(1, len(times)))))
    if len(times) > 20 and rng.random() < 0.7:
        # a long series: long -d lists (most days of the file, several runs a day), possibly with -tod
        from vmon.props import c03
        o2, _ = c03.gen_opts_long(rng, ds)
        opts.pop("times", None)
        opts.update({k: v for k, v in o2.items() if k in ("dates", "tods")})
    use_T = False
    if rng.random() < 0.2 and all(i["fmt"] == "text" for i in refmodel.all_inputs(ds)) and all("obs" in i["has"] for i in ds["inputs"]):
        # -T h -Tagg f -Tx leadtime: obs and fcst are replaced by f over the trailing h hours before anything else is computed
        # (text inputs: NetCDF files with shuffled lead times have the known window-by-position finding of C15)
        opts["T"] = {"h": rng.choice([2, 6, 12, 24, 25, 48]), "agg": rng.choice(["mean", "max", "min", "sum", "median", "iqr", "range", "0.75"]),
                     "tx": "leadtime"}
        use_T = True
    spec["opts"] = opts
    if not use_T and ds.get("clim") is not None and rng.random() < 0.6:
        spec["clim"] = True
        spec["clim_type"] = rng.choice(["subtract", "divide"])
    i0 = ds["inputs"][0]
    allobs = all("obs" in i["has"] for i in ds["inputs"])
    # (field overrides are not combined with -c/-C: which field of the climatology file then applies is undocumented)
    if spec.get("clim") or use_T:
        pass
    elif spec["metric"] not in ("obs", "fcst") and rng.random() < 0.2:
        choices = []
        if allobs:
            choices.append(("obs",))
        if all(i["quantiles"] == i0["quantiles"] and i["quantiles"] for i in ds["inputs"]):
            choices.append(("q", rng.choice(i0["quantiles"])))
        if all("pit" in i["has"] for i in ds["inputs"]):
            choices.append(("pit",))
        if choices:
            spec["fcst_field"] = list(rng.choice(choices))
    elif spec["metric"] not in ("obs", "fcst") and rng.random() < 0.08:
        spec["obs_field"] = ["fcst"]
    if rng.random() < 0.3:
        spec["leg"] = ["leg %d" % i if rng.random() < 0.5 else "L%d" % i for i in range(len(ds["inputs"]))]
    if rng.random() < 0.2 and not use_T:      # (single-precision pre-aggregated values: running sums with cancellation are not compared)
        spec["acc"] = True
    return spec


def run_semantic(desc, ctx):
    rng = random.Random("C13-sem-%s-%s" % (desc["seed"], desc["k"]))
    for ci in range(desc["n"]):
        withq = rng.random() < 0.3
        ds = gen.make_dataset(rng, n_inputs=rng.choice([1, 2, 3]), clim=rng.random() < 0.3, miss=rng.choice([0.0, 0.1, 0.2]),
                              integerish=rng.random() < 0.4, vrange=rng.choice([(-5, 20), (0, 6), (1, 15)]),
                              prob=withq, pit=withq, thresholds=[0.0, 5.0], quantiles=[0.25, 0.75])
        if ci % 8 == 7:
            from vmon.props import c03
            ds = c03.make_long(rng)
            ctx.count("long_series_cases")
        gapcase = ci % 8 == 3
        if gapcase:
            # a lead time in the middle of the axis without any valid case (its score is NaN): -acc carries the total on past it
            cl = refmodel.common_dims(ds)[1]
            if len(cl) >= 3:
                lg = cl[len(cl) // 2]
                for inp in ds["inputs"]:
                    for k_, c_ in inp["cells"].items():
                        if k_.split("|")[1] == gen.fnum(lg):
                            c_["obs"] = None
                ctx.count("gap_cases")
            else:
                gapcase = False
        d = os.path.join(ctx.workdir, "s%d" % ci)
        os.makedirs(d, exist_ok=True)
        paths, cpath = gen.materialize(ds, d, rng if rng.random() < 0.5 else None)
        for _ in range(4):
            spec = gen_spec(rng, ds)
            if gapcase and rng.random() < 0.7 and not spec["opts"].get("T"):
                spec["acc"] = True
                spec["axis"] = "leadtime"
            groups = refcli.spec_to_argv(spec, paths, cpath)
            flat = [x for g in groups for x in g]
            optnames = sorted(set(g[0] for g in groups))
            rel = [a if os.sep not in a else os.path.basename(a) for a in flat]
            case = {"ds": ds, "spec": spec}
            # the reference may say: empty selection -> error exit or NaN; missing locations etc.
            try:
                ref = refcli.table(ds, spec)
                ref_err = None
            except (refmodel.EmptySelection, KeyError, IndexError, ZeroDivisionError) as e:
                ref, ref_err = None, e
            tdims = refmodel.common_dims(ds if spec.get("clim") else {"inputs": ds["inputs"], "clim": None}, spec["opts"])
            empty = not tdims[0] or not tdims[1] or not tdims[2]
            o = runner.run_cli(paths + flat)
            ctx.count("semantic_lines")
            ctx.case("sem|%s|canonical" % "+".join(optnames), len(groups) >= 4, {"argv": rel})
            if o.status == "crash":
                ctx.violation("semantic-crash|%s@%s" % (o.exc_type, o.where), "verif %s\n%s" % (" ".join(rel), o.tb), case)
                continue
            if empty:
                if o.status == "ok":
                    h, rows = runner.parse_csv(o.stdout)
                    nd = len(h) - len(ds["inputs"])
                    if not spec.get("acc") and any(c.lower() != "nan" for r in rows for c in r[nd:]):
                        ctx.violation("empty-selection-gives-number", "verif %s printed numbers for an empty selection:\n%s"
                                      % (" ".join(rel), o.stdout[-400:]), case)
                continue
            if o.status == "exit":
                ctx.violation("semantic-unexpected-exit", "verif %s exited: %s" % (" ".join(rel), runner.strip_ansi(o.stdout)[-300:]), case)
                continue
            h, rows = runner.parse_csv(o.stdout)
            if ref is not None:
                # (-T: the pre-aggregated values are single precision; scores that cancel to ~0 get an absolute tolerance)
                msg = refcli.compare_table(h, rows, ref, sig=5 if spec["opts"].get("T") else 6, abs_tol=2e-6 if spec["opts"].get("T") else 0.0)
                if msg:
                    ctx.violation("semantic-table|%s" % spec["metric"], "verif %s\n%s\n--- verif printed:\n%s"
                                  % (" ".join(rel), msg, runner.strip_ansi(o.stdout)[-800:]), case)
            # option order must not matter
            g2 = list(groups)
            rng.shuffle(g2)
            files_first = rng.random() < 0.5
            flat2 = [x for g in g2 for x in g]
            n0 = len(g2[0])
            argv2 = (paths + flat2) if files_first else (flat2[:n0] + paths + flat2[n0:])
            o2 = runner.run_cli(argv2)
            ctx.count("order_variants")
            ctx.case("sem|%s|shuffled" % "+".join(optnames), len(groups) >= 4)
            if o2.status != o.status or runner.parse_csv(o2.stdout) != (h, rows):
                ctx.violation("option-order-matters", "verif %s\nand the same options reordered (%s) give different output"
                              % (" ".join(rel), " ".join(a if os.sep not in a else os.path.basename(a) for a in argv2)), case)
            # --config equals inline
            cfg = os.path.join(d, "cfg%d.txt" % ctx.evaluations)
            half = len(g2) // 2
            with open(cfg, "w") as f:
                for g in g2[half:]:
                    f.write(" ".join(g) + "\n")
            flat3 = [x for g in g2[:half] for x in g]
            cfgargs = ["--config", cfg]
            if len(g2) - half >= 2 and rng.random() < 0.6:
                # the flag can appear multiple times: spread the same options over two (or three) files
                cut = half + (len(g2) - half) // 2
                cfg2 = os.path.join(d, "cfgb%d.txt" % ctx.evaluations)
                with open(cfg, "w") as f:
                    for g in g2[half:cut]:
                        f.write(" ".join(g) + "\n")
                with open(cfg2, "w") as f:
                    f.write("\n".join(" ".join(g) for g in g2[cut:]) + "\n")
                cfgargs = ["--config", cfg, "--config", cfg2]
                if rng.random() < 0.3:
                    cfg3 = os.path.join(d, "cfgc%d.txt" % ctx.evaluations)
                    open(cfg3, "w").write("\n")
                    cfgargs += ["--config", cfg3]
                ctx.count("multi_config_variants")
            pos = rng.choice(["end", "start", "middle"])
            if pos == "end":
                argv3 = paths + flat3 + cfgargs
            elif pos == "start":
                argv3 = cfgargs + paths + flat3
            else:
                argv3 = paths + cfgargs + flat3
            o3 = runner.run_cli(argv3)
            ctx.count("config_variants")
            ctx.case("sem|%s|config" % "+".join(optnames), True)
            if o3.status != o.status or runner.parse_csv(o3.stdout) != (h, rows):
                ctx.violation("config-differs-from-inline", "verif %s\nvs half of the options through --config: different output (%s)"
                              % (" ".join(rel), o3.brief()), case)
        # thresholds left out: verif chooses 20 thresholds itself and prints them; the scores must be those of exactly these
        # thresholds (whatever other options, -c / -C included, are in force)
        spec = gen_spec(rng, ds)
        if spec["metric"] in CAT and spec["metric"] != "within" and "within" not in (spec.get("bin") or "") \
                and spec.get("clim_type") != "divide" and not spec.get("obs_field") and not spec.get("fcst_field"):
            spec = dict(spec, axis="threshold", thresholds=None)
            spec.pop("acc", None)
            groups = refcli.spec_to_argv(spec, paths, cpath)
            flat = [x for g in groups for x in g]
            rel = [a if os.sep not in a else os.path.basename(a) for a in flat]
            o = runner.run_cli(paths + flat)
            ctx.count("automatic_threshold_tables")
            if o.status == "crash":
                ctx.violation("semantic-crash|%s@%s" % (o.exc_type, o.where), "verif %s\n%s" % (" ".join(rel), o.tb), {"ds": ds, "spec": spec})
            elif o.status == "ok":
                h, rows = runner.parse_csv(o.stdout)
                try:
                    ths = [float(r[0]) for r in rows]
                except ValueError:
                    ths = []
                if len(ths) == 20 and all(t == t and abs(t) < 1e9 for t in ths) and all(abs(t * 8 - round(t * 8)) > 1e-3 or abs(t * 8 - round(t * 8)) < 1e-9 for t in ths):
                    spec2 = dict(spec, thresholds=ths)
                    try:
                        ref = refcli.table(ds, spec2)
                    except (refmodel.EmptySelection, KeyError, IndexError, ZeroDivisionError):
                        ref = None
                    if ref is not None:
                        msg = refcli.compare_table(h, rows, ref)
                        ctx.case("sem|automatic-thresholds|%s" % ("clim" if spec.get("clim") else "plain"), True, {"argv": rel})
                        if msg:
                            ctx.violation("automatic-thresholds-table|%s" % ("clim" if spec.get("clim") else "plain"),
                                          "verif %s (no -r)\n%s\n--- verif printed:\n%s" % (" ".join(rel), msg, runner.strip_ansi(o.stdout)[-900:]),
                                          {"ds": ds, "spec": spec})
        # --list-*
        opts = {}
        times, leads, locs = refmodel.common_dims({"inputs": ds["inputs"], "clim": None})
        if rng.random() < 0.5 and len(locs) > 1:
            opts["locations"] = sorted(l[0] for l in rng.sample(locs, rng.randint(1, len(locs))))
        times, leads, locs = refmodel.common_dims({"inputs": ds["inputs"], "clim": None}, opts)
        o = runner.run_cli(paths + vutil.opts_to_argv(opts) + ["--list-times"])
        ctx.count("list_checks")
        got = [l.strip() for l in runner.strip_ansi(o.stdout).split("\n") if l.strip() and not l.startswith("Warning")]
        if got != ["%d" % t for t in times]:
            ctx.violation("list-times", "--list-times printed %s, reference %s" % (got, times), {"ds": ds, "opts": opts})
        o = runner.run_cli(paths + vutil.opts_to_argv(opts) + ["--list-dates"])
        got = [l.strip() for l in runner.strip_ansi(o.stdout).split("\n") if l.strip() and not l.startswith("Warning")]
        want = []
        for t in times:
            y, m, dd, H, M, S = gen.unix_to_civil(t)
            want.append("%04d%02d%02d %02d:%02d:%02d" % (y, m, dd, H, M, S))
        ctx.count("list_checks")
        if got != want:
            ctx.violation("list-dates", "--list-dates printed %s, reference %s" % (got, want), {"ds": ds, "opts": opts})
        if all(i["thresholds"] for i in ds["inputs"]):
            o = runner.run_cli(paths + ["--list-thresholds", "--list-quantiles"])
            lines = [l.strip() for l in runner.strip_ansi(o.stdout).split("\n") if l.strip() and not l.startswith("Warning")]
            ctx.count("list_checks")
            ct = sorted(set.intersection(*[set(i["thresholds"]) for i in ds["inputs"]]))
            cq = sorted(set.intersection(*[set(i["quantiles"]) for i in ds["inputs"]]))
            want = ["Thresholds: " + " ".join("%g" % t for t in ct), "Quantiles: " + " ".join("%g" % q for q in cq)]

            def nums(line):
                return [float(x) for x in line.split(":", 1)[1].split()] if ":" in line else None
            if len(lines) != 2 or not lines[0].startswith("Thresholds:") or not lines[1].startswith("Quantiles:") or \
                    not all(abs(a - b) < 1e-6 for a, b in zip(nums(lines[0]), ct)) or len(nums(lines[0])) != len(ct) or \
                    not all(abs(a - b) < 1e-6 for a, b in zip(nums(lines[1]), cq)) or len(nums(lines[1])) != len(cq):
                ctx.violation("list-thresholds-quantiles", "--list-thresholds --list-quantiles printed %s, documented %s" % (lines, want), {"ds": ds})
        o = runner.run_cli(paths + vutil.opts_to_argv(opts) + ["--list-locations"])
        got = [l.split() for l in runner.strip_ansi(o.stdout).split("\n") if l.strip() and not l.startswith("Warning")][1:]
        ctx.count("list_checks")
        ok = len(got) == len(locs) and all(
            len(g) == 4 and all(abs(float(a) - float(b)) <= 0.051 for a, b in zip(g, l)) for g, l in zip(got, locs))
        if not ok:
            ctx.violation("list-locations", "--list-locations printed %s, reference %s" % (got, locs), {"ds": ds, "opts": opts})


def run_qbins(desc, ctx):
    """-b as the help text defines it, for the one score that applies it to QUANTILE forecasts (observations tying with the
    quantile values decide): shared with C07's machinery, in two option orders."""
    from vmon.props import c07
    c07.run_quantile_events(desc, ctx)
    ctx.count("quantile_bin_semantics_runs")
    # -q and -leg with -m obsfcst: one column per (quantile, input), quantile-major, named "<legend name> <level>%"
    from vmon.props import c12
    rng = random.Random("C13-of-%s-%s" % (desc["seed"], desc["k"]))
    for ci in range(10 if desc.get("tier") == "quick" else 80):
        c12.obsfcst_table(ctx, rng, ci, options=True)


def run_shard(desc, ctx):
    {"vectors": run_vectors, "dates": run_dates, "reject": run_reject, "semantic": run_semantic, "qbins": run_qbins}[desc["part"]](desc, ctx)


def replay(case, ctx):
    import verif.util
    if case and "arg" in case:
        run_vectors({"k": 0, "of": 1}, ctx)
        run_dates({"seed": 0}, ctx)
    elif case and "class" in case:
        run_reject({"seed": 0}, ctx)
    elif case and "spec" in case:
        ds, spec = case["ds"], case["spec"]
        d = os.path.join(ctx.workdir, "rp")
        os.makedirs(d, exist_ok=True)
        for i in ds["inputs"] + ([ds["clim"]] if ds.get("clim") else []):
            i["style"] = {}
        paths, cpath = gen.materialize(ds, d, None)
        flat = [x for g in refcli.spec_to_argv(spec, paths, cpath) for x in g]
        o = runner.run_cli(paths + flat)
        ctx.case("replay", True)
        if o.status == "crash":
            ctx.violation("semantic-crash|%s@%s" % (o.exc_type, o.where), o.tb, case)
        elif o.status == "ok":
            h, rows = runner.parse_csv(o.stdout)
            msg = refcli.compare_table(h, rows, refcli.table(ds, spec))
            if msg:
                ctx.violation("semantic-table|%s" % spec["metric"], msg, case)
    else:
        run_reject({"seed": 0}, ctx)
