"""C14 Anomaly scores use the climatology at the same coordinates."""
import os
import random

from vmon import gen, refcli, refmodel, runner, vutil

RULE = ("1-3 inputs plus a climatology file with its own coverage, missingness, stored order and (for -C) zeros; (a) every cell "
        "of Data.get_scores([obs, fcst], k) under -c / -C must equal value - (or /) the climatology forecast at the same "
        "(time, lead time, location), missing where the climatology is missing or the quotient is not finite, for every "
        "input; other fields (pit, cdf) must be unaltered; (b) csv of mae/rmse/bias/stderror/ef/corr/ets on all axes must equal "
        "the reference interpreter; (c) for shift-invariant scores, `A B -c X` must equal the first columns of `A B X`; (d) "
        "the climatology never shows up as a column, and -leg takes one entry per scored input. signature = (subtract|divide, "
        "metric, axis, climatology coverage class); non-trivial = the climatology removes >= 1 case and changes >= 1 value.")
RULE += " " + '-obsrange (a range of OBSERVATION values, not anomalies) is in force in 40 % of the cases.'
RULE += " " + 'Files with different observations in 40 % of the cases.'
RULE += " " + 'Rounds 9-10: the extra-input relation also runs with -fcst <other column>.'
ASSUMPTIONS = ["shift-invariant scores: mae, rmse, bias, stderror, ef, within (functions of fcst - obs per case only)"]
REQUIRED_COUNTERS = ["cells_compared", "other_field_cells", "csv_tables", "metamorphic_pairs", "header_checks"]
ANCHOR_FUNCS = ["Data.get_scores", "Data._get_score"]

NAN = float("nan")


def refmetrics_mean(xs):
    from vmon import refmetrics
    return refmetrics.mean(xs)
SHIFT_INV = ["mae", "rmse", "bias", "stderror", "ef"]


def plan(tier, seed):
    n = 14 if tier == "quick" else 200
    return [{"seed": seed, "k": k, "n": n} for k in range(16)]


def run_case(ctx, rng, ci):
    import numpy as np
    import verif.field
    pit = rng.random() < 0.4
    with_raw = rng.random() < 0.3
    ds = gen.make_dataset(rng, n_inputs=rng.choice([1, 2, 2, 3]), clim=True, pit=pit, miss=rng.choice([0.0, 0.1, 0.25]),
                          max_t=5, max_l=4, max_s=4, vrange=rng.choice([(-10, 30), (1, 20)]), some_without_obs=rng.random() < 0.2,
                          others=(["raw"] if with_raw else ()))
    if len(ds["inputs"]) >= 2 and all("obs" in i["has"] for i in ds["inputs"]) and rng.random() < 0.4:
        # files may carry different observations (another sensor, another quality control): each input's anomaly is its own
        for j, inp in enumerate(ds["inputs"][1:]):
            for c in inp["cells"].values():
                if c.get("obs") is not None and rng.random() < 0.6:
                    c["obs"] = c["obs"] + 0.25 * (j + 1)
        ctx.count("cases_with_different_observations")
    clim = ds["clim"]
    ctype = rng.choice(["subtract", "divide"])
    zeros = 0
    if ctype == "divide":
        for c in clim["cells"].values():
            if c.get("fcst") is not None and rng.random() < 0.15:
                c["fcst"] = 0.0
                zeros += 1
    d = os.path.join(ctx.workdir, "c%d" % ci)
    os.makedirs(d, exist_ok=True)
    paths, cpath = gen.materialize(ds, d, rng if rng.random() < 0.6 else None)
    F = len(ds["inputs"])
    flag = "-c" if ctype == "subtract" else "-C"
    opts = {"clim_type": ctype}
    sel = {}
    if rng.random() < 0.4:
        # -obsrange limits the verification to a range of OBSERVATION values (not of anomalies)
        ov = sorted(set(c["obs"] for i in ds["inputs"] for c in i["cells"].values() if c.get("obs") is not None))
        if len(ov) >= 3:
            a, b = sorted(rng.sample(ov, 2))
            sel = {"obsrange": [a, b]}
            opts.update(sel)
            ctx.count("cases_with_obsrange")
    sargv = vutil.opts_to_argv(sel)
    case = {"ds": ds, "ctype": ctype, "sel": sel}
    times, leads, locs = refmodel.common_dims(ds)
    noclim = {"inputs": ds["inputs"], "clim": None}
    # how much does the climatology matter?
    removed = changed = 0
    try:
        with_c = refmodel.valid_cases(ds, 0, [("obs",), ("fcst",)], opts)
        nt, nl, ns = refmodel.common_dims(noclim)
        without = refmodel.valid_cases(noclim, 0, [("obs",), ("fcst",)])
        removed = len(without) - len(with_c)
        changed = len(with_c)
    except KeyError:
        pass
    cov = "full" if removed == 0 else "partial"
    # (a) cell by cell
    for k in range(F):
        data = vutil.build_data(paths, cpath, opts)
        try:
            go, gf = data.get_scores([verif.field.Obs(), verif.field.Fcst()], k)
        except SystemExit:
            break
        go, gf = np.array(go, float), np.array(gf, float)
        for a, t in enumerate(times):
            for b, l in enumerate(leads):
                for c, s in enumerate(locs):
                    v = refmodel.case_values(ds, k, [("obs",), ("fcst",)], t, l, s[0], opts)
                    ctx.count("cells_compared")
                    wo, wf = (NAN, NAN) if v is None else v
                    if not vutil.num_equal(float(go[a, b, c]), wo, 1e-9, 1e-12) or not vutil.num_equal(float(gf[a, b, c]), wf, 1e-9, 1e-12):
                        why = "kept-invalid-case" if v is None else "anomaly-value"
                        ctx.violation("%s|%s" % (why, ctype), "%s: input %d cell (%s,%s,%s): verif obs=%r fcst=%r, climatology at the same "
                                      "coordinates gives obs=%r fcst=%r" % (flag, k, t, l, s[0], float(go[a, b, c]), float(gf[a, b, c]), wo, wf), case)
                        break
        if pit:
            data2 = vutil.build_data(paths, cpath, opts)
            # requested together with obs, so that the anomaly machinery is active for this request
            gp = np.array(data2.get_scores([verif.field.Obs(), verif.field.Pit()], k)[1], float)
            for a, t in enumerate(times):
                for b, l in enumerate(leads):
                    for c, s in enumerate(locs):
                        v = refmodel.case_values(ds, k, [("obs",), ("pit",)], t, l, s[0], opts)
                        ctx.count("other_field_cells")
                        w = NAN if v is None else v[1]
                        if not vutil.num_equal(float(gp[a, b, c]), w, 1e-12, 1e-12):
                            ctx.violation("other-field-altered|%s" % ctype, "%s: pit of input %d at (%s,%s,%s) = %r, file stores %r"
                                          % (flag, k, t, l, s[0], float(gp[a, b, c]), w), case)
                            break
        else:
            ctx.count("other_field_cells", 0)
    # (a2) the anomaly must not depend on what was requested before: whole-array requests for every input, then slices
    if all("fcst" in i["has"] for i in ds["inputs"]):
        import verif.metric
        data = vutil.build_data(paths, cpath, opts)
        try:
            for k in range(F):
                data.get_scores(verif.field.Obs(), k)
                data.get_scores([verif.field.Obs(), verif.field.Fcst()], k)
            for k in range(F):
                go, gf = data.get_scores([verif.field.Obs(), verif.field.Fcst()], k)
                go, gf = np.array(go, float), np.array(gf, float)
                bad = None
                for a, t in enumerate(times):
                    for b, l in enumerate(leads):
                        for c, s_ in enumerate(locs):
                            v = refmodel.case_values(ds, k, [("obs",), ("fcst",)], t, l, s_[0], opts)
                            wo, wf = (NAN, NAN) if v is None else v
                            ctx.count("cells_compared")
                            if not vutil.num_equal(float(go[a, b, c]), wo, 1e-9, 1e-12) or not vutil.num_equal(float(gf[a, b, c]), wf, 1e-9, 1e-12):
                                bad = (t, l, s_[0], float(go[a, b, c]), float(gf[a, b, c]), wo, wf)
                if bad:
                    ctx.violation("anomaly-applied-twice-or-stale|%s" % ctype, "%s: after whole-array requests for every input, input %d cell (%s,%s,%s): "
                                  "obs=%r fcst=%r, climatology at the same coordinates gives obs=%r fcst=%r" % ((flag, k) + bad), case)
                    break
                m = verif.metric.Mae()
                got = m.compute(data, k, vutil.vaxis("leadtime"), None)
                sl = refmodel.slices(ds, k, [("obs",), ("fcst",)], "leadtime", opts)
                for i, (lab, cs) in enumerate(sl):
                    want = refmetrics_mean([abs(x[0] - x[1]) for x in cs]) if cs else NAN
                    if not vutil.num_equal(float(got[i]), want, 1e-9, 1e-9):
                        ctx.violation("anomaly-score-after-whole-array-request|%s" % ctype, "%s: mae at lead time %s for input %d = %r after whole-array "
                                      "requests, reference %r" % (flag, lab, k, float(got[i]), want), case)
                        break
        except SystemExit:
            pass
        # (the driver makes the same whole-array requests when it has to choose thresholds itself, e.g. -m ets without -r)
        o1 = runner.run_cli(paths + [flag, cpath] + sargv + ["-m", "ets", "-x", "no", "-type", "csv"])
        if o1.status == "crash":
            ctx.violation("crash|%s@%s" % (o1.exc_type, o1.where), o1.tb, case)

    # (b) csv tables against the reference interpreter
    if all("fcst" in i["has"] for i in ds["inputs"]):
        for _ in range(4):
            metric = rng.choice(SHIFT_INV + ["corr", "ets", "mbias", "obs", "fcst"])
            axis = rng.choice(refmodel.ALL_AXES)
            spec = {"metric": metric, "axis": axis, "clim": True, "clim_type": ctype, "opts": dict(sel)}
            if metric == "ets":
                spec["thresholds"] = [rng.choice([-1.0, 0.0, 0.5, 1.0, 2.0])]
                spec["bin"] = rng.choice(["above", "below=", "above="])
            if rng.random() < 0.3:
                spec["leg"] = ["L%d" % i for i in range(F)]
            groups = refcli.spec_to_argv(spec, paths, cpath)
            flat = [x for g in groups for x in g]
            o = runner.run_cli(paths + flat)
            ctx.count("csv_tables")
            ctx.case("%s|%s|%s|%s" % (ctype, metric, axis, cov), removed > 0 and changed > 0,
                     {"inputs": gen.ds_summary(ds), "argv": [a if os.sep not in a else os.path.basename(a) for a in flat],
                      "cases_removed_by_climatology": removed, "zeros_in_climatology": zeros})
            if o.status == "crash":
                ctx.violation("crash|%s@%s" % (o.exc_type, o.where), o.tb, case)
                continue
            if o.status == "exit":
                if times and leads and locs:
                    ctx.violation("unexpected-exit", runner.strip_ansi(o.stdout)[-300:], case)
                continue
            h, rows = runner.parse_csv(o.stdout)
            ctx.count("header_checks")
            names = h[len(h) - F:]
            want_names = spec.get("leg") or [i["name"] for i in ds["inputs"]]
            if names != want_names or any(clim["name"] in x for x in h):
                ctx.violation("climatology-shown-as-column", "header %s; scored inputs are %s" % (h, want_names), case)
                continue
            try:
                ref = refcli.table(ds, spec)
            except KeyError:
                continue
            msg = refcli.compare_table(h, rows, ref)
            if msg:
                ctx.violation("anomaly-table|%s|%s" % (ctype, metric), "verif <files> %s\n%s\n%s" % (
                    " ".join(a if os.sep not in a else os.path.basename(a) for a in flat), msg, runner.strip_ansi(o.stdout)[-500:]), case)
        # (c) metamorphic: -c X  ==  X as an additional input (shift-invariant scores)
        if "fcst" in clim["has"]:
            metric = rng.choice(SHIFT_INV + ["within"])
            axis = rng.choice(refmodel.ALL_AXES)
            extra = ["-r", "2"] if metric == "within" else []
            cmd = sargv + ["-m", metric] + extra + ["-x", axis, "-type", "csv"]
            if with_raw and all("obs" in i["has"] for i in ds["inputs"]):
                # another column plays the forecast (-fcst raw): the anomaly is still taken of both sides, so the scores still
                # equal those with the climatology file as an additional input
                cmd = ["-fcst", "raw"] + cmd
                ctx.count("metamorphic_pairs_with_field_override")
            o1 = runner.run_cli(paths + ["-c", cpath] + cmd)
            o2 = runner.run_cli(paths + [cpath] + cmd)
            ctx.count("metamorphic_pairs")
            ctx.case("subtract|%s|%s|metamorphic-%s" % (metric, axis, cov), removed > 0)
            if o1.status == "ok" and o2.status == "ok":
                h1, r1 = runner.parse_csv(o1.stdout)
                h2, r2 = runner.parse_csv(o2.stdout)
                nd = len(h1) - F
                c1 = [r[:nd + F] for r in r1]
                c2 = [r[:nd + F] for r in r2]

                def close(x, y):
                    try:
                        fx, fy = float(x), float(y)
                    except ValueError:
                        return x == y
                    if fx != fx or fy != fy:
                        return fx != fx and fy != fy
                    return abs(fx - fy) <= 1e-5 * max(abs(fx), abs(fy), 1e-9) + 1e-9
                if len(c1) != len(c2) or not all(len(a) == len(b) and all(close(x, y) for x, y in zip(a, b)) for a, b in zip(c1, c2)):
                    ctx.violation("anomaly-differs-from-extra-input|%s" % metric,
                                  "verif A.. -c X %s\n%s\nverif A.. X %s (first %d columns)\n%s" % (" ".join(cmd), c1[:6], " ".join(cmd), F, c2[:6]), case)
            elif o1.status != o2.status and "crash" in (o1.status, o2.status):
                ctx.violation("metamorphic-run-crash", "%s / %s" % (o1.brief(), o2.brief()), case)
        else:
            ctx.count("metamorphic_pairs", 0)
        # (d) legend count = number of scored inputs
        o = runner.run_cli(paths + [flag, cpath, "-m", "mae", "-type", "csv", "-leg", ",".join("n%d" % i for i in range(F + 1))])
        ctx.count("header_checks")
        if o.status == "ok":
            ctx.violation("legend-count-includes-climatology", "-leg with %d names for %d scored inputs was accepted" % (F + 1, F), case)


def run_shard(desc, ctx):
    rng = random.Random("C14-%s-%s" % (desc["seed"], desc["k"]))
    for ci in range(desc["n"]):
        run_case(ctx, rng, ci)


def replay(case, ctx):
    ds = case["ds"]
    orig = gen.make_dataset
    try:
        gen.make_dataset = lambda *a, **k: ds
        for i in refmodel.all_inputs(ds):
            i["style"] = {}
        run_case(ctx, random.Random(5), 0)
    finally:
        gen.make_dataset = orig
