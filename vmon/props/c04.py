"""C04 Missing data never enters a score as a number."""
import os
import random

from vmon import gen, refmodel, runner, vutil

RULE = ("metamorphic pairs through the real readers: dataset A has a set K of cases of one field of one input MARKED missing "
        "(text tokens -999/nan/NaN/NA/missing/-/-999.0; NetCDF _FillValue, masked, -999, NaN, 1e36), dataset B has the rows "
        "K DELETED; for every metric that uses that field (all ~70 metrics: deterministic, 25 categorical, Brier family, "
        "quantile, PIT) the csv of A must equal the csv of B row by row, rows that exist only in A (a slice with no valid "
        "case, incl. K = a whole lead time or a whole input) must be NaN, and nothing may crash. -C with zero climatology and "
        "-c with missing climatology are handled the same way. Ensemble members marked missing: the event probability taken "
        "from the ensemble must be the fraction of the PRESENT members (reference model). Plus a record-mode post-condition on Data.get_scores "
        "(no NaN/inf in a non-empty result) under an ambient CLI workload. signature = (encoding, field, metric, "
        "scattered|slice|whole-input); non-trivial = at least one marked case would change the score if read as a number.")
RULE += " " + 'Part fss: fractions skill score (spatial neighbourhoods of 5-10 clustered stations, and temporal) with whole times / lead times / runs / scattered cases marked missing: marked == deleted while the coordinates are unchanged, and equal to an independent neighbourhood-fraction evaluation with missing cases dropped.'
RULE += " " + 'Aggregators other than the mean on obs/fcst scores; temporal fss reference with station outages; contingency-table conservation contract on droc/droc0/performance; negative values with a zero climatology.'
RULE += " " + 'Rounds 9-10: aggregators on obs/fcst/mae/bias over slices with no valid case.'
RULE += " " + 'Rounds 11-12: averages over several thresholds where one threshold has no valid case in a slice.'
ASSUMPTIONS = ["a text value above 1e30 and the token 'inf' are outside the documented encodings and not generated",
               "deleting a row from one input is equivalent, for a fair comparison, to the case being absent for all inputs"]
REQUIRED_COUNTERS = ["pairs", "rows_compared", "allmissing_rows", "would_change", "clim_pairs", "contract:get_scores"]
ANCHOR_FUNCS = ["Data.get_scores", "util.clean", "Text._clean"]

DET = ["mae", "bias", "rmse", "stderror", "corr", "rankcorr", "kendallcorr", "nsec", "nnsec", "kge", "cmae", "rmsf", "dmb", "mbias",
       "ef", "derror", "leps", "alphaindex", "diff", "ratio", "obsstddev", "fcststddev"]
CAT = ["a", "b", "c", "d", "n", "ets", "fcstrate", "dscore", "threat", "pc", "edi", "sedi", "eds", "seds", "biasfreq", "hss", "baserate",
       "or", "lor", "yulesq", "kss", "hit", "miss", "fa", "far"]
BRIER = ["bs", "bsrel", "bsres", "bsunc", "bss", "bssrel", "bssres", "ign0", "spherical", "marginalratio"]
PIT = ["pit", "pithistdev", "pithistslope", "pithistshape"]


def metric_table(thr, dthr, q0, q1):
    """name -> (argv, fields used)"""
    t = {}
    for m in DET:
        t[m] = ([], ["obs", "fcst"])
    t["within"] = (["-r", "2"], ["obs", "fcst"])
    for m in CAT:
        t[m] = (["-r", gen.fnum(dthr)], ["obs", "fcst"])
    t["obs"] = ([], ["obs"])
    t["fcst"] = ([], ["fcst"])
    for m in BRIER:
        t[m] = (["-r", gen.fnum(thr)], ["obs", "p"])
    t["threshold"] = (["-r", gen.fnum(thr)], ["p"])
    t["quantilescore"] = (["-q", gen.fnum(q0)], ["obs", "q"])
    t["quantilecoverage"] = (["-q", "%s,%s" % (gen.fnum(q0), gen.fnum(q1))], ["obs", "q"])
    t["quantile"] = (["-q", gen.fnum(q0)], ["q"])
    t["spread"] = (["-q", "%s,%s" % (gen.fnum(q0), gen.fnum(q1))], ["q"])
    t["spreadskillratio"] = (["-q", "%s,%s" % (gen.fnum(q0), gen.fnum(q1))], ["obs", "fcst", "q"])
    for m in PIT:
        t[m] = ([], ["pit"])
    return t


def plan(tier, seed):
    n = 8 if tier == "quick" else 120
    shards = [{"part": "pairs", "seed": seed, "k": k, "n": n} for k in range(14)]
    shards += [{"part": "ambient", "seed": seed, "k": k, "n": 120 if tier == "quick" else 1500} for k in range(2)]
    shards += [{"part": "members", "seed": seed, "k": k, "n": 6 if tier == "quick" else 120} for k in range(4)]
    shards += [{"part": "fss", "seed": seed, "k": k, "n": 8 if tier == "quick" else 150} for k in range(4)]
    return shards


def mark(cell, field):
    if field in ("obs", "fcst", "pit"):
        cell[field] = None
    elif field == "p":
        cell["p"] = [None] * len(cell["p"])
    elif field == "q":
        cell["q"] = [None] * len(cell["q"])


def csv_rows(o, F):
    h, rows = runner.parse_csv(o.stdout)
    nd = len(h) - F
    return {tuple(r[:nd]): r[nd:] for r in rows}


def same_number(a, b):
    if a == b:
        return True
    try:
        fa, fb = float(a), float(b)
    except ValueError:
        return False
    if fa != fa or fb != fb:
        return fa != fa and fb != fb
    return abs(fa - fb) <= 2e-5 * max(abs(fa), abs(fb), 1e-12)


def run_pairs(desc, ctx):
    rng = random.Random("C04-%s-%s" % (desc["seed"], desc["k"]))
    for ci in range(desc["n"]):
        F = rng.choice([1, 2, 2, 3])
        thresholds = [0.0, 5.0, 10.0]
        quantiles = [0.25, 0.5, 0.75]
        ds = gen.make_dataset(rng, n_inputs=F, prob=True, pit=True, miss=0.0, sparse=0.0, same_dims=rng.random() < 0.5,
                              thresholds=thresholds, quantiles=quantiles, max_t=5, max_l=4, max_s=3, vrange=(1, 14))
        table = metric_table(rng.choice(thresholds), rng.choice([3.0, 5.0, 7.5]), 0.25, 0.75)
        times, leads, locs = refmodel.common_dims(ds)
        cases = [(t, l, s[0]) for t in times for l in leads for s in locs]
        base = os.path.join(ctx.workdir, "p%d" % ci)
        d0 = os.path.join(base, "orig")
        os.makedirs(d0)
        orig_paths = [gen.write_input(dict(i, style={}), d0, None) for i in ds["inputs"]]
        orig_out = {}
        for rep in range(6):
            metric = rng.choice(sorted(table) + ["obs", "fcst"])
            argv, used = table[metric]
            if metric in ("obs", "fcst", "mae", "bias") and rng.random() < 0.6:
                # aggregators other than the mean: a slice without a valid case has no sum, extreme or count either
                argv = argv + ["-agg", rng.choice(["sum", "min", "max", "range", "median", "0.5", "count", "std", "iqr"])]
            field = rng.choice(used)
            victim = rng.randrange(F)
            mode = rng.choice(["scattered", "scattered", "slice", "time-slice", "whole-input"])
            if mode == "time-slice":
                t0 = rng.choice(times)
                K = [c for c in cases if c[0] == t0]
            elif mode == "scattered":
                K = rng.sample(cases, max(1, int(len(cases) * rng.choice([0.1, 0.3, 0.5]))))
            elif mode == "slice":
                l0 = rng.choice(leads)
                K = [c for c in cases if c[1] == l0]
            else:
                K = list(cases)
            vin = ds["inputs"][victim]
            # A: marked missing
            A = {"inputs": [dict(i) for i in ds["inputs"]], "clim": None}
            a_in = dict(vin)
            a_in["cells"] = {k: dict(c) for k, c in vin["cells"].items()}
            if mode == "whole-input":
                for c in a_in["cells"].values():
                    mark(c, field)
            else:
                for (t, l, s) in K:
                    mark(a_in["cells"][gen.ck(t, l, s)], field)
            a_in["style"] = {}
            A["inputs"][victim] = a_in
            # B: rows deleted (always a text file)
            b_in = dict(vin)
            if mode == "whole-input":
                b_in = None
            else:
                dead = set(gen.ck(t, l, s) for (t, l, s) in K)
                b_in["cells"] = {k: dict(c) for k, c in vin["cells"].items() if k not in dead}
                b_in["fmt"] = "text"
                b_in["name"] = vin["name"].rsplit(".", 1)[0] + ".txt"
                b_in["style"] = {}
            da = os.path.join(base, "r%d" % rep, "a")
            db = os.path.join(base, "r%d" % rep, "b")
            os.makedirs(da)
            os.makedirs(db)
            enc_rng = random.Random(rng.random())
            pa = []
            for j, inp in enumerate(A["inputs"]):
                w = a_in if j == victim else dict(inp, style={})
                pa.append(gen.write_input(w, da, enc_rng))
            enc = "+".join(a_in["style"].get("tokens", a_in["style"].get("enc", ["?"])))
            pb = []
            if b_in is not None:
                for j, inp in enumerate(ds["inputs"]):
                    w = dict(b_in) if j == victim else dict(inp)
                    w["style"] = {}
                    if j == victim:
                        gen.prune_dims(w) if w["cells"] else None
                    pb.append(gen.write_input(w, db, None))
            case = {"ds": ds, "metric": metric, "field": field, "victim": victim, "mode": mode, "K": K[:50], "encoding": enc}
            for axis in ("no", "leadtime"):
                cmd = ["-m", metric] + argv + ["-x", axis, "-type", "csv"]
                oa = runner.run_cli(pa + cmd)
                ctx.count("pairs")
                sig = "%s|%s|%s|%s" % (vin["fmt"] + ":" + enc, field, metric, mode)
                if oa.status == "crash":
                    ctx.violation("crash-on-missing|%s@%s" % (oa.exc_type, oa.where), "verif <A> %s\n%s" % (" ".join(cmd), oa.tb), case)
                    continue
                if oa.status == "exit":
                    # allowed only when nothing at all is left (e.g. a file whose every obs is missing has no obs)
                    ctx.case(sig, False)
                    ctx.count("error_exits")
                    continue
                ra = csv_rows(oa, F)
                if b_in is not None and b_in["cells"]:
                    ob = runner.run_cli(pb + cmd)
                    rb = csv_rows(ob, F) if ob.status == "ok" else {}
                    if ob.status == "crash":
                        ctx.violation("crash-on-sparse|%s@%s" % (ob.exc_type, ob.where), ob.tb, case)
                        continue
                else:
                    rb = {}
                # would reading the marker as a number change the score?  (compare with the unmarked original)
                changed = False
                for key, vals in ra.items():
                    ctx.count("rows_compared")
                    if key in rb:
                        if not all(same_number(x, y) for x, y in zip(vals, rb[key])):
                            ctx.violation("marked-differs-from-deleted|%s|%s" % (field, metric if metric in ("bsunc",) else "any"),
                                          "-m %s -x %s: field %s of input %d marked missing (%s, %s) gives row %s = %s, but with those rows deleted %s"
                                          % (metric, axis, field, victim, enc, mode, key, vals, rb[key]), case)
                    else:
                        ctx.count("allmissing_rows")
                        if not all(v.lower() == "nan" or (v == "0" and "count" in argv) for v in vals):
                            ctx.violation("number-from-no-valid-case|%s" % metric,
                                          "-m %s %s -x %s: slice %s has no valid case (field %s of input %d is missing there: %s, %s) but the "
                                          "score is %s" % (metric, " ".join(argv), axis, key, field, victim, enc, mode, vals), case)
                # non-triviality: the original (unmarked) data gives another number than A somewhere
                if (metric, axis) not in orig_out:
                    o0 = runner.run_cli(orig_paths + cmd)
                    orig_out[(metric, axis)] = csv_rows(o0, F) if o0.status == "ok" else {}
                o_orig = orig_out[(metric, axis)]
                changed = any(o_orig.get(k) != v for k, v in ra.items())
                if changed:
                    ctx.count("would_change")
                ctx.case(sig, changed, {"metric": metric, "field": field, "encoding": enc, "mode": mode, "marked_cases": len(K),
                                         "input_format": vin["fmt"]})
        # scores averaged over several thresholds (-r a,b on an axis other than threshold): a slice where ONE of the thresholds
        # has no valid case has no average either - the thresholds that do have cases there are not averaged with a stand-in
        for rep in range(2):
            use = sorted(rng.sample(thresholds, rng.randint(2, 3)))
            j = thresholds.index(rng.choice(use))
            metric = rng.choice(["bs", "bs", "bsrel", "bsres", "bss", "threshold"])
            victim = rng.randrange(F)
            axis = rng.choice(["leadtime", "location", "time"])
            dimi = {"time": 0, "leadtime": 1, "location": 2}[axis]
            v0 = rng.choice([times, leads, [s[0] for s in locs]][dimi])
            A = [dict(i, style={}) for i in ds["inputs"]]
            a_in = dict(A[victim])
            a_in["cells"] = {k: dict(c) for k, c in a_in["cells"].items()}
            for (t, l, s) in cases:
                if (t, l, s)[dimi] == v0:
                    c = a_in["cells"][gen.ck(t, l, s)]
                    c["p"] = [None if jj == j else x for jj, x in enumerate(c["p"])]
            A[victim] = a_in
            dm = os.path.join(base, "multi%d" % rep)
            os.makedirs(dm)
            pa = [gen.write_input(w, dm, random.Random(rng.random())) for w in A]
            cmd = ["-m", metric, "-r", ",".join(gen.fnum(t) for t in use), "-x", axis, "-type", "csv"]
            oa = runner.run_cli(pa + cmd)
            o0 = runner.run_cli(orig_paths + cmd)
            ctx.count("multi_threshold_pairs")
            case = {"ds": ds, "metric": metric, "thresholds": use, "blanked_threshold": thresholds[j], "victim": victim, "axis": axis, "slice": v0}
            if oa.status == "crash":
                ctx.violation("crash-on-missing|%s@%s" % (oa.exc_type, oa.where), "verif <A> %s\n%s" % (" ".join(cmd), oa.tb), case)
                continue
            if oa.status != "ok" or o0.status != "ok":
                continue
            ha, rowsa = runner.parse_csv(oa.stdout)
            h0, rows0 = runner.parse_csv(o0.stdout)
            labels = refmodel.slice_labels(ds, axis)
            if len(rowsa) != len(labels) or len(rows0) != len(labels):
                continue
            nd = len(ha) - F
            for i, lab in enumerate(labels):
                hit = lab == v0
                vals = rowsa[i][nd:]
                ctx.count("multi_threshold_rows")
                if hit:
                    if not all(v.lower() == "nan" for v in vals):
                        ctx.violation("number-from-no-valid-case|threshold-average",
                                      "%s: the p%s column of input %d is missing throughout %s %s, so threshold %s has no valid case there, "
                                      "but the average over thresholds %s is reported as %s"
                                      % (" ".join(cmd), gen.fnum(thresholds[j]), victim, axis, v0, gen.fnum(thresholds[j]), use, vals), case)
                elif not all(same_number(x, y) for x, y in zip(vals, rows0[i][nd:])):
                    ctx.violation("untouched-slice-changed|threshold-average", "%s row %d: %s, without the missing column %s"
                                  % (" ".join(cmd), i, vals, rows0[i][nd:]), case)
            ctx.case("multi-threshold|%s|%s|%d" % (metric, axis, len(use)), True, {"argv": cmd})
        # climatology: zeros under -C, missing under -c
        for ctype in ("divide", "subtract"):
            # (negative values too: x / 0 is then -inf, which is as missing as +inf)
            dsc = gen.make_dataset(rng, n_inputs=rng.choice([1, 2]), clim=True, miss=0.0, sparse=0.0, same_dims=True,
                                   vrange=rng.choice([(1, 14), (-9, 9), (-12, -1)]), max_t=4, max_l=3, max_s=3)
            times, leads, locs = refmodel.common_dims(dsc)
            allc = [(t, l, s[0]) for t in times for l in leads for s in locs]
            K = rng.sample(allc, max(1, len(allc) // 3))
            A = dict(dsc)
            ca = dict(dsc["clim"])
            ca["cells"] = {k: dict(c) for k, c in ca["cells"].items()}
            for (t, l, s) in K:
                ca["cells"][gen.ck(t, l, s)]["fcst"] = 0.0 if ctype == "divide" else None
            ca["style"] = {}
            cb = dict(dsc["clim"])
            dead = set(gen.ck(t, l, s) for (t, l, s) in K)
            cb["cells"] = {k: dict(c) for k, c in cb["cells"].items() if k not in dead}
            cb["fmt"] = "text"
            cb["name"] = "climb.txt"
            cb["style"] = {}
            gen.prune_dims(cb)
            dd = os.path.join(base, "clim-" + ctype)
            os.makedirs(dd)
            paths = [gen.write_input(dict(i, style={}), dd, None) for i in dsc["inputs"]]
            pca = gen.write_input(ca, dd, random.Random(rng.random()))
            pcb = gen.write_input(cb, dd, None)
            flag = "-C" if ctype == "divide" else "-c"
            m = rng.choice(["mae", "rmse", "bias", "corr", "ets"])
            extra = ["-r", "1"] if m == "ets" else []
            F2 = len(dsc["inputs"])
            for axis in ("no", "leadtime"):
                cmd = ["-m", m] + extra + ["-x", axis, "-type", "csv"]
                oa = runner.run_cli(paths + [flag, pca] + cmd)
                ob = runner.run_cli(paths + [flag, pcb] + cmd)
                ctx.count("clim_pairs")
                ctx.case("clim|%s|%s|%s" % (ctype, m, axis), True)
                if oa.status == "crash":
                    ctx.violation("crash-on-missing-clim|%s@%s" % (oa.exc_type, oa.where), oa.tb, {"ds": dsc, "ctype": ctype})
                    continue
                if oa.status != "ok" or ob.status != "ok":
                    continue
                ra, rb = csv_rows(oa, F2), csv_rows(ob, F2)
                for key, vals in ra.items():
                    if key in rb:
                        if not all(same_number(x, y) for x, y in zip(vals, rb[key])):
                            ctx.violation("clim-marked-differs-from-deleted|%s" % ctype,
                                          "%s <clim> -m %s -x %s row %s: climatology %s at %d cases gives %s, with those cases deleted %s"
                                          % (flag, m, axis, key, "zero" if ctype == "divide" else "missing", len(K), vals, rb[key]),
                                          {"ds": dsc, "ctype": ctype, "K": K[:40]})
                    elif not all(v.lower() == "nan" for v in vals):
                        ctx.violation("clim-number-from-no-valid-case|%s" % ctype, "row %s = %s" % (key, vals), {"ds": dsc, "ctype": ctype})


def run_members(desc, ctx):
    """Missing ensemble members: the probability of an event not stored in the file is the fraction of the PRESENT
    members at or below the threshold; a missing member (any encoding) must not be counted as a number."""
    from vmon import refmetrics
    rng = random.Random("C04-mem-%s-%s" % (desc["seed"], desc["k"]))
    for ci in range(desc["n"]):
        F = rng.choice([1, 2])
        M = rng.randint(2, 6)
        ds = gen.make_dataset(rng, n_inputs=F, ens=True, members=M, miss=0.0, sparse=0.0, same_dims=True, max_t=4, max_l=3, max_s=3,
                              vrange=(0, 12), integerish=rng.random() < 0.5)
        marked = 0
        for inp in ds["inputs"]:
            for c in inp["cells"].values():
                r = rng.random()
                if r < 0.35:
                    for j in rng.sample(range(M), rng.randint(1, M - 1)):
                        c["e"][j] = None
                        marked += 1
                elif r < 0.45:
                    c["e"] = [None] * M
        d = os.path.join(ctx.workdir, "m%d" % ci)
        os.makedirs(d)
        enc_rng = random.Random(rng.random())
        paths = [gen.write_input(i, d, enc_rng) for i in ds["inputs"]]
        encs = "+".join("+".join(i["style"].get("tokens", i["style"].get("enc", ["?"]))) for i in ds["inputs"])
        t = rng.choice([2.0, 5.0, 6.5, 9.0])
        case = {"ds": ds, "threshold": t}
        for axis in ("no", "leadtime"):
            for metric in ("threshold", "bs"):
                o = runner.run_cli(paths + ["-m", metric, "-r", gen.fnum(t), "-b", "below=", "-x", axis, "-type", "csv"])
                ctx.count("pairs")
                ctx.case("%s|e|%s|partial-members" % (encs, metric), marked > 0, {"metric": metric, "threshold": t, "members": M,
                                                                                    "marked_members": marked, "encodings": encs})
                if o.status == "crash":
                    ctx.violation("crash-on-missing|%s@%s" % (o.exc_type, o.where), o.tb, case)
                    continue
                if o.status != "ok":
                    continue
                h, rows = runner.parse_csv(o.stdout)
                nd = len(h) - F
                for k in range(F):
                    fields = [("thr", t)] if metric == "threshold" else [("obs",), ("thr", t)]
                    sl = refmodel.slices(ds, k, fields, axis)
                    for i, (lab, cs) in enumerate(sl):
                        ctx.count("rows_compared")
                        if i >= len(rows):
                            break
                        if not cs:
                            ctx.count("allmissing_rows")
                            if rows[i][nd + k].lower() != "nan":
                                ctx.violation("number-from-no-valid-case|%s" % metric, "row %d = %s without a valid case" % (i, rows[i][nd + k]), case)
                            continue
                        if metric == "threshold":
                            want = refmetrics.mean([c[0] for c in cs])
                        else:
                            want = refmetrics.mean([(c[1] - (1.0 if c[0] <= t else 0.0)) ** 2 for c in cs])
                        if not same_number(rows[i][nd + k], "%g" % want):
                            ctx.violation("missing-member-counted|%s" % metric,
                                          "-m %s -r %s -x %s row %d input %d: csv %s, fraction of PRESENT members gives %g (%d member values marked missing: %s)"
                                          % (metric, t, axis, i, k, rows[i][nd + k], want, marked, encs), case)
        ctx.count("would_change", 1 if marked else 0)


FSS_LOCS = [[1, 60.0, 10.5, 100.0], [2, 60.0625, 10.5, 120.0], [3, 60.0, 10.625, 90.0], [4, 59.9375, 10.75, 94.0],
            [5, 59.5, 9.75, 0.0], [6, 61.25, 11.0, 250.0], [7, 60.375, 5.25, 12.0], [8, 63.5, 10.5, 30.0], [9, 58.0, 8.0, 5.0],
            [10, 60.03125, 10.5625, 140.0]]
FSS_SCALES = [2, 4, 8, 16, 32, 64, 128, 256, 512, 1024]


def _haversine_km(a, b):
    import math
    la1, lo1, la2, lo2 = [math.radians(x) for x in (a[1], a[2], b[1], b[2])]
    h = math.sin((la2 - la1) / 2) ** 2 + math.cos(la1) * math.cos(la2) * math.sin((lo2 - lo1) / 2) ** 2
    return 2 * 6371.0 * math.asin(math.sqrt(h))


def ref_fss_spatial(ds, k, thr, scale_km):
    """Fractions skill score of input k at one spatial scale, missing cases dropped (None = scale too close to a
    pair distance to decide the neighbourhoods independently; nan = undefined)."""
    times, leads, locs = refmodel.common_dims(ds)
    L = len(locs)
    for a in locs:
        for b in locs:
            dkm = _haversine_km(a, b)
            if a is not b and abs(dkm - scale_km) < 0.02 * scale_km:
                return None
    vals = {}
    for t in times:
        for l in leads:
            for s in locs:
                vals[(t, l, s[0])] = refmodel.case_values(ds, k, [("obs",), ("fcst",)], t, l, s[0])
    bs, sum_obs, count = [], 0.0, 0
    for a in locs:
        nb = [b for b in locs if _haversine_km(a, b) < scale_km]
        if len(nb) <= 3:
            continue
        fo, ff = [], []
        for t in times:
            for l in leads:
                v = [vals[(t, l, b[0])] for b in nb]
                v = [x for x in v if x is not None]
                if not v:
                    continue          # no valid case in this neighbourhood at this (time, lead time): dropped
                fo.append(sum(1.0 for x in v if x[0] > thr) / len(v))
                ff.append(sum(1.0 for x in v if x[1] > thr) / len(v))
        if not fo:
            count += 1
            sum_obs = float("nan")
            continue
        bs.append(sum((x - y) ** 2 for x, y in zip(fo, ff)) / len(fo))
        sum_obs += sum(fo) / len(fo)
        count += 1
    if count == 0 or sum_obs != sum_obs or not bs:
        return float("nan")
    mo = sum_obs / count
    unc = mo * (1 - mo)
    if not unc > 0:
        return float("nan")
    return (unc - sum(bs) / len(bs)) / unc


def ref_fss_temporal(ds, k, thr, scale):
    """Temporal fractions skill score of input k at one scale (difference between two lead times): fractions over the lead
    times of the window, per (time, location); a window without any valid case is dropped."""
    times, leads, locs = refmodel.common_dims(ds)
    vals = {}
    for t in times:
        for l in leads:
            for s in locs:
                vals[(t, l, s[0])] = refmodel.case_values(ds, k, [("obs",), ("fcst",)], t, l, s[0])
    errs, fos = [], []
    for i0, la in enumerate(leads):
        for i1, lb in enumerate(leads):
            if abs((lb - la) - scale) > 1e-9 or scale <= 0:
                continue
            win = leads[i0:i1 + 1]
            for t in times:
                for s in locs:
                    v = [vals[(t, l, s[0])] for l in win]
                    v = [x for x in v if x is not None]
                    if not v:
                        continue
                    fo = sum(1.0 for x in v if x[0] > thr) / len(v)
                    ff = sum(1.0 for x in v if x[1] > thr) / len(v)
                    errs.append((fo - ff) ** 2)
                    fos.append(fo)
    if not errs:
        return float("nan")
    mo = sum(fos) / len(fos)
    unc = mo * (1 - mo)
    if not unc > 0:
        return float("nan")
    return (unc - sum(errs) / len(errs)) / unc


def run_fss(desc, ctx):
    """Fractions skill score (neighbourhood fractions): a (time, lead time) whose whole neighbourhood is missing must be
    dropped, never counted as 'no event, perfectly forecast'.  Oracles: marked == deleted, and an independent evaluation of the
    neighbourhood-fraction definition with missing cases dropped."""
    rng = random.Random("C04-fss-%s-%s" % (desc["seed"], desc["k"]))
    for ci in range(desc["n"]):
        F = rng.choice([1, 2])
        ds = gen.make_dataset(rng, n_inputs=F, miss=0.0, sparse=0.0, same_dims=True, max_t=4, max_l=3, vrange=(0, 12),
                              loc_pool=FSS_LOCS, n_locs=rng.randint(5, 10), integerish=rng.random() < 0.5)
        times, leads, locs = refmodel.common_dims(ds)
        cases = [(t, l, s[0]) for t in times for l in leads for s in locs]
        thr = rng.choice([3.0, 5.0, 6.0, 8.0])
        victim = rng.randrange(F)
        field = rng.choice(["obs", "fcst"])
        mode = rng.choice(["time-slice", "lead-slice", "run", "run", "scattered", "outage", "outage"])
        if mode == "time-slice":
            t0 = rng.choice(times)
            K = [c for c in cases if c[0] == t0]
        elif mode == "lead-slice":
            l0 = rng.choice(leads)
            K = [c for c in cases if c[1] == l0]
        elif mode == "run":
            runs = rng.sample([(t, l) for t in times for l in leads], max(1, len(times) * len(leads) // 3))
            K = [c for c in cases if (c[0], c[1]) in runs]
        elif mode == "outage":
            # a station is silent over two or more consecutive lead times of some runs: whole temporal windows have no case
            K = []
            for _o in range(rng.randint(1, 3)):
                t0, s0 = rng.choice(times), rng.choice(locs)[0]
                i0 = rng.randrange(len(leads))
                i1 = min(len(leads), i0 + rng.randint(2, 3))
                K += [(t0, l, s0) for l in leads[i0:i1]]
            K = sorted(set(K))
        else:
            K = rng.sample(cases, max(1, len(cases) // 4))
        vin = ds["inputs"][victim]
        a_in = dict(vin)
        a_in["cells"] = {k: dict(c) for k, c in vin["cells"].items()}
        for (t, l, s) in K:
            a_in["cells"][gen.ck(t, l, s)][field] = None
        a_in["style"] = {}
        A = {"inputs": [dict(i) for i in ds["inputs"]], "clim": None}
        A["inputs"][victim] = a_in
        dead = set(gen.ck(t, l, s) for (t, l, s) in K)
        b_in = dict(vin)
        b_in["cells"] = {k: dict(c) for k, c in vin["cells"].items() if k not in dead}
        b_in["fmt"] = "text"
        b_in["name"] = vin["name"].rsplit(".", 1)[0] + ".txt"
        b_in["style"] = {}
        base = os.path.join(ctx.workdir, "f%d" % ci)
        da, db = os.path.join(base, "a"), os.path.join(base, "b")
        os.makedirs(da)
        os.makedirs(db)
        enc_rng = random.Random(rng.random())
        pa = [gen.write_input(a_in if j == victim else dict(inp, style={}), da, enc_rng) for j, inp in enumerate(A["inputs"])]
        enc = "+".join(a_in["style"].get("tokens", a_in["style"].get("enc", ["?"])))
        pb = []
        if b_in["cells"]:
            for j, inp in enumerate(ds["inputs"]):
                w = dict(b_in) if j == victim else dict(inp)
                w["style"] = {}
                if j == victim:
                    gen.prune_dims(w)
                    if list(w["leadtimes"]) != list(vin["leadtimes"]) or [x[0] for x in w["locs"]] != [x[0] for x in vin["locs"]]:
                        # deleting removed a lead time or a station altogether: the scales / neighbourhoods themselves (the
                        # x axis of this diagram) are then different, so the two runs are not comparable row by row
                        pb = None
                        break
                pb.append(gen.write_input(w, db, None))
            if pb is None:
                pb = []
                ctx.count("fss_deleted_variant_not_comparable")
        case = {"ds": ds, "metric": "fss", "field": field, "victim": victim, "mode": mode, "K": K[:60], "encoding": enc, "threshold": thr}
        for axis in ("location", "leadtime"):
            cmd = ["-m", "fss", "-r", gen.fnum(thr), "-x", axis, "-type", "csv"]
            oa = runner.run_cli(pa + cmd)
            ctx.count("pairs")
            ctx.count("fss_pairs")
            sig = "%s|%s|fss-%s|%s" % (vin["fmt"] + ":" + enc, field, axis, mode)
            if oa.status == "crash":
                ctx.violation("crash-on-missing|%s@%s" % (oa.exc_type, oa.where), "verif <A> %s\n%s" % (" ".join(cmd), oa.tb), case)
                continue
            if oa.status != "ok":
                ctx.case(sig, False)
                continue
            ra = csv_rows(oa, F)
            rb = {}
            if pb:
                ob = runner.run_cli(pb + cmd)
                if ob.status == "crash":
                    ctx.violation("crash-on-sparse|%s@%s" % (ob.exc_type, ob.where), ob.tb, case)
                    continue
                rb = csv_rows(ob, F) if ob.status == "ok" else {}
            nontrivial = False
            for key, vals in ra.items():
                ctx.count("rows_compared")
                # (the skill score is computed in single precision as (unc - bs) / unc: absolute tolerance near zero skill)
                if key in rb and not all(same_number(x, y) or (x.lower() != "nan" and y.lower() != "nan" and abs(float(x) - float(y)) < 2e-6)
                                         for x, y in zip(vals, rb[key])):
                    ctx.violation("marked-differs-from-deleted|%s|fss" % field,
                                  "-m fss -r %s -x %s: field %s of input %d marked missing (%s, %s) gives row %s = %s, but with those rows "
                                  "deleted %s" % (thr, axis, field, victim, enc, mode, key, vals, rb[key]), case)
                if axis == "leadtime":
                    for k in range(F):
                        want = ref_fss_temporal(A, k, thr, float(key[0]))
                        ctx.count("fss_reference_checks")
                        if want == want:
                            nontrivial = True
                        got = vals[k]
                        ok = (got.lower() == "nan") if want != want else (got.lower() != "nan" and abs(float(got) - want) < 1e-5 * max(1.0, abs(want)))
                        if not ok:
                            ctx.violation("fss-temporal-counts-missing-window|%s" % mode,
                                          "-m fss -r %s -x leadtime scale %s h input %d: csv %s, window fractions over the valid cases give %r "
                                          "(field %s of input %d missing at %d cases: %s, %s)"
                                          % (thr, key[0], k, got, want, field, victim, len(K), enc, mode), case)
                if axis == "location":
                    for k in range(F):
                        want = ref_fss_spatial(A, k, thr, float(key[0]))
                        if want is None:
                            continue
                        ctx.count("fss_reference_checks")
                        if want == want:
                            nontrivial = True
                        got = vals[k]
                        ok = (got.lower() == "nan") if want != want else same_number(got, "%.10g" % want) or abs(float(got) - want) < 2e-6
                        if not ok:
                            ctx.violation("fss-counts-missing-neighbourhood|%s" % mode,
                                          "-m fss -r %s scale %s km input %d: csv %s, neighbourhood fractions over the valid cases give %r "
                                          "(field %s of input %d missing at %d cases: %s, %s)"
                                          % (thr, key[0], k, got, want, field, victim, len(K), enc, mode), case)
            ctx.case(sig, nontrivial or bool(rb), {"metric": "fss", "axis": axis, "field": field, "encoding": enc, "mode": mode,
                                                     "marked_cases": len(K), "locations": len(locs)})


def run_shard(desc, ctx):
    if desc["part"] == "members":
        return run_members(desc, ctx)
    if desc["part"] == "fss":
        return run_fss(desc, ctx)
    if desc["part"] == "pairs":
        run_pairs(desc, ctx)
    else:
        from vmon import ambient, attach
        attach.attach_data(ctx)
        attach.attach_abcd(ctx, "C04")
        def sure(pdet, pprob):
            # the callers that hand whole (time, lead time, location) blocks with NaN cells to the contingency counter
            out = []
            for files in (pdet, pprob):
                for b in ("above", "above=", "below", "below="):
                    out.append(list(files) + ["-m", "droc", "-r", "5", "-b", b])
                    out.append(list(files) + ["-m", "droc0", "-r", "2", "-b", b])
                    out.append(list(files) + ["-m", "performance", "-r", "5", "-b", b])
                    out.append(list(files) + ["-m", "ets", "-r", "2,5", "-b", b, "-type", "csv"])
            return out
        ambient.run(ctx, "c04-%s-%s" % (desc["seed"], desc["k"]), desc["n"], extra=sure)
        attach.detach_all()


def replay(case, ctx):
    run_pairs({"seed": 0, "k": 0, "n": 2}, ctx)
