"""C17 Plot appearance options are honoured in the produced figure."""
import os
import random
import struct

from vmon import gen, runner

RULE = ("a table option -> (argv fragment, probe on the produced matplotlib figure / saved file, expected value); every "
        "documented appearance option is run alone and in all pairs of related options and random subsets of 2-7 mutually compatible options (independence) "
        "on six figure kinds: standard line plot, location-axis plot, map, and the multi-axes diagrams pithist, igncontrib, "
        "against; the figure is really saved (-f) and the file's magic bytes and pixel size are read back. A probe must "
        "hold for every option present, regardless of the others. signature = (sorted option subset, figure kind); "
        "non-trivial = at least one present option whose probe fails on the default figure (i.e. the option has a visible "
        "effect to verify).")
RULE += " " + 'Figure kind std5 has 5 lines with style lists of 2, 3 and 4 entries: each list repeats by its own length.'
RULE += " " + 'Figure kinds stdgap (a lead time without valid cases: annotation contents), qq (-sp/-xlim/-ylim: the ideal diagonal covers the visible diagonal), std1 (one-point axis: the perfect-score line has positive length).'
RULE += " " + 'Rounds 9-10: -leg on map panel titles; figure kind tsens (time series of ensemble inputs with -q: -lw/-lc/-ls on forecast and quantile lines).'
RULE += " " + 'Rounds 11-12: line options on both panels of igncontrib; -ms on map panels.'
RULE += " " + 'Rounds 13-14: figure kind time (date axis): -xticks given as dates, alone and with -xticklabels, combined with -xrot / -tickfs / -ylim / -yticks / -title.'
ASSUMPTIONS = ["figures are inspected through matplotlib's object model after canvas.draw(), not pixel by pixel",
               "cartopy is absent: maps use the plain-axes path"]
REQUIRED_COUNTERS = ["figures", "probes", "single_option_runs", "subset_runs", "file_format_checks"]
ANCHOR_FUNCS = ["Output._adjust_axis", "Output._save_plot"]
TIMEOUT = {"quick": 1500, "thorough": 7200}

KINDS = {
    "std": (2, ["-m", "mae", "-x", "leadtime"]),
    "std5": (5, ["-m", "mae", "-x", "leadtime"]),      # more lines than entries in the style lists: each list repeats by its own length
    "stdgap": (2, ["-m", "mae", "-x", "leadtime"]),      # one lead time in the middle has no valid case (a gap in every line)
    "std1": (2, ["-m", "mae", "-x", "location", "-l", "LOC0"]),        # a single point on the x axis
    "qq": (2, ["-m", "qq"]),
    "time": (2, ["-m", "mae", "-x", "time"]),            # a date axis: -xticks are given as dates
    "loc": (2, ["-m", "mae", "-x", "location"]),
    "map": (2, ["-m", "mae", "-type", "map"]),
    "pithist": (2, ["-m", "pithist"]),
    "igncontrib": (2, ["-m", "igncontrib", "-r", "5"]),
    "against": (3, ["-m", "against"]),
    # inputs with ensemble members: forecast and quantile lines carry -lw/-lc/-ls, only the member lines are half width
    "tsens": (2, ["-m", "timeseries", "-q", "0.1,0.9"]),
}


def main_axes(fig, kind):
    """axes that carry data (colorbar axes excluded)"""
    axs = [a for a in fig.axes if a.get_label() != "<colorbar>"]
    return axs


def _close(a, b, tol=1e-6):
    return abs(float(a) - float(b)) <= tol * max(1.0, abs(float(b)))


def color_eq(c, want):
    import matplotlib.colors as mc
    return all(abs(x - y) < 1e-6 for x, y in zip(mc.to_rgba(c), mc.to_rgba(want)))


def vis_labels(labels):
    return [t for t in labels if t.get_text() != "" and t.get_visible()]


# ------------------------------------------------------------------ probes: return None or a message

def p_title(fig, kind, info):
    for ax in main_axes(fig, kind):
        if ax.get_title() != "My title 1":
            return "title is %r on some axes, expected 'My title 1'" % ax.get_title()


def p_xlabel(fig, kind, info):
    for ax in main_axes(fig, kind):
        if ax.get_xlabel() != "Xlab":
            return "xlabel %r" % ax.get_xlabel()


def p_ylabel(fig, kind, info):
    for ax in main_axes(fig, kind):
        if ax.get_ylabel() != "Ylab":
            return "ylabel %r" % ax.get_ylabel()


def p_clabel(fig, kind, info):
    labs = [a.get_ylabel() for a in fig.axes if a.get_label() == "<colorbar>"]
    if not labs or any(l != "Clab" for l in labs):
        return "colorbar labels %s, expected 'Clab'" % labs


def p_xlim(fig, kind, info):
    for ax in main_axes(fig, kind):
        if not (_close(ax.get_xlim()[0], 1) and _close(ax.get_xlim()[1], 40)):
            return "xlim %s, expected (1, 40)" % (ax.get_xlim(),)


def p_ylim(fig, kind, info):
    for ax in main_axes(fig, kind):
        if not (_close(ax.get_ylim()[0], 0.5) and _close(ax.get_ylim()[1], 30)):
            return "ylim %s, expected (0.5, 30)" % (ax.get_ylim(),)


def p_clim(fig, kind, info):
    found = 0
    for ax in main_axes(fig, kind):
        for c in ax.collections:
            if c.get_array() is not None:
                found += 1
                lo, hi = c.get_clim()
                if not (_close(lo, 1) and _close(hi, 7)):
                    return "colour limits %s, expected (1, 7)" % ((lo, hi),)
    if not found:
        return "no coloured scatter found"


def p_xticks(fig, kind, info):
    for ax in main_axes(fig, kind):
        if [round(x, 6) for x in ax.get_xticks()] != [0, 12, 24]:
            return "xticks %s, expected [0, 12, 24]" % list(ax.get_xticks())


def p_xticklabels(fig, kind, info):
    for ax in main_axes(fig, kind):
        if [t.get_text() for t in ax.get_xticklabels()] != ["a", "b", "c"]:
            return "xticklabels %s, expected a,b,c" % [t.get_text() for t in ax.get_xticklabels()]


def p_xticks_date(fig, kind, info):
    want = [t // 86400 for t in info["tick_days"]]
    for ax in main_axes(fig, kind):
        if [round(x, 6) for x in ax.get_xticks()] != want:
            return "xticks %s, expected the date numbers %s of %s" % (list(ax.get_xticks()), want, info["tick_dates"])


def p_xticklabels_date(fig, kind, info):
    msg = p_xticks_date(fig, kind, info)
    if msg:
        return msg
    for ax in main_axes(fig, kind):
        if [t.get_text() for t in ax.get_xticklabels()] != ["first", "last"]:
            return "xticklabels %s on the date axis, expected first,last" % [t.get_text() for t in ax.get_xticklabels()]


def p_yticks(fig, kind, info):
    for ax in main_axes(fig, kind):
        if [round(x, 6) for x in ax.get_yticks()] != [0, 5, 10]:
            return "yticks %s, expected [0, 5, 10]" % list(ax.get_yticks())


def p_yticklabels(fig, kind, info):
    for ax in main_axes(fig, kind):
        if [t.get_text() for t in ax.get_yticklabels()] != ["lo", "mid", "hi"]:
            return "yticklabels %s" % [t.get_text() for t in ax.get_yticklabels()]


def p_xrot(fig, kind, info):
    for ax in main_axes(fig, kind):
        labs = vis_labels(ax.get_xticklabels())
        if labs and any(abs(t.get_rotation() - 35) > 1e-6 for t in labs):
            return "x tick label rotations %s, expected 35" % sorted(set(t.get_rotation() for t in labs))


def p_yrot(fig, kind, info):
    for ax in main_axes(fig, kind):
        labs = vis_labels(ax.get_yticklabels())
        if labs and any(abs(t.get_rotation() - 25) > 1e-6 for t in labs):
            return "y tick label rotations %s, expected 25" % sorted(set(t.get_rotation() for t in labs))


def p_xlog(fig, kind, info):
    for ax in main_axes(fig, kind):
        if ax.get_xscale() != "log":
            return "xscale %s" % ax.get_xscale()


def p_ylog(fig, kind, info):
    for ax in main_axes(fig, kind):
        if ax.get_yscale() != "log":
            return "yscale %s" % ax.get_yscale()


def _legends(fig, kind):
    return [a.get_legend() for a in main_axes(fig, kind) if a.get_legend() is not None]


def p_leg(fig, kind, info):
    n = info["F"]
    want = ["Name %d" % i for i in range(n)]
    if kind == "map":
        # a map has no legend box: each file's panel is titled with its legend entry
        titles = [ax.get_title() for ax in main_axes(fig, kind)]
        if "-title" in info["argv"]:
            return None          # an explicit -title replaces the panel titles
        if titles != want:
            return "map panels are titled %s, expected the legend entries %s" % (titles, want)
        return None
    legs = _legends(fig, kind)
    if not legs:
        return "no legend"
    texts = [t.get_text() for t in legs[0].get_texts()]
    if [t for t in texts if t in want] != want:
        return "legend entries %s, expected %s among them in order" % (texts, want)


def p_legfs(fig, kind, info):
    legs = _legends(fig, kind)
    if not legs:
        return "no legend"
    if any(abs(t.get_fontsize() - 7) > 1e-6 for t in legs[0].get_texts()):
        return "legend font sizes %s, expected 7" % [t.get_fontsize() for t in legs[0].get_texts()]


def p_legfs0(fig, kind, info):
    if _legends(fig, kind):
        return "-legfs 0 should hide the legend"


def p_legloc(fig, kind, info):
    legs = _legends(fig, kind)
    if not legs:
        return "no legend"
    if legs[0]._loc != 3:
        return "legend location code %r, expected 3 (lower left)" % (legs[0]._loc,)


def _series(fig, kind, info):
    """the F data lines of a standard plot, by legend label"""
    ax = main_axes(fig, kind)[0]
    names = info["names"]
    out = []
    for n in names:
        m = [l for l in ax.get_lines() if l.get_label() == n]
        if not m:
            return None
        out.append(m[0])
    return out


def _with_quantile_lines(fig, kind, info, s):
    """(input index, line) for the data lines; for the time series with -q also the first line of each (level, input)"""
    out = list(enumerate(s))
    if kind == "tsens":
        ax = main_axes(fig, kind)[0]
        for lab in ("10%", "90%"):
            m = [l for l in ax.get_lines() if l.get_label() == lab]
            if len(m) != info["F"]:
                return None
            out += list(enumerate(m))
    if kind == "igncontrib":
        # the lower panel (number of cases per bin) draws one line per input with the same options as the upper panel
        axs = main_axes(fig, kind)
        low = list(axs[1].get_lines()) if len(axs) > 1 else []
        if len(low) != info["F"]:
            return None
        out += list(enumerate(low))
    return out


def p_lc(fig, kind, info):
    s = _series(fig, kind, info)
    if s is None:
        return "data lines not found"
    want = ["red", "blue"]
    s = _with_quantile_lines(fig, kind, info, s)
    if s is None:
        return "quantile lines not found"
    for i, l in s:
        if not color_eq(l.get_color(), want[i % 2]):
            return "line %d colour %r, expected %s" % (i, l.get_color(), want[i % 2])


def p_ls(fig, kind, info):
    s = _series(fig, kind, info)
    if s is None:
        return "data lines not found"
    want = ["--", ":", "-."]
    s = _with_quantile_lines(fig, kind, info, s)
    if s is None:
        return "quantile lines not found"
    for i, l in s:
        if l.get_linestyle() != want[i % 3]:
            return "line %d style %r, expected %s" % (i, l.get_linestyle(), want[i % 3])


def p_lw(fig, kind, info):
    s = _series(fig, kind, info)
    if s is None:
        return "data lines not found"
    want = [3.0, 1.0]
    s = _with_quantile_lines(fig, kind, info, s)
    if s is None:
        return "quantile lines not found"
    for i, l in s:
        if abs(l.get_linewidth() - want[i % 2]) > 1e-6:
            return "line %d width %r, expected %s" % (i, l.get_linewidth(), want[i % 2])


def p_ma(fig, kind, info):
    s = _series(fig, kind, info)
    if s is None:
        return "data lines not found"
    want = ["x", "s", "^"]
    s = _with_quantile_lines(fig, kind, info, s) if kind == "igncontrib" else list(enumerate(s))
    if s is None:
        return "lower-panel lines not found"
    for i, l in s:
        if l.get_marker() != want[i % 3]:
            return "line %d marker %r, expected %s" % (i, l.get_marker(), want[i % 3])


def p_ms(fig, kind, info):
    s = _series(fig, kind, info)
    if s is None:
        return "data lines not found"
    want = [4.0, 9.0, 6.0, 5.0]
    s = _with_quantile_lines(fig, kind, info, s) if kind == "igncontrib" else list(enumerate(s))
    if s is None:
        return "lower-panel lines not found"
    for i, l in s:
        if abs(l.get_markersize() - want[i % 4]) > 1e-6:
            return "line %d marker size %r, expected %s" % (i, l.get_markersize(), want[i % 4])


def p_ms_map(fig, kind, info):
    """on a map each panel (one per input) draws its stations with that input's marker size: scatter area = size squared"""
    want = [4.0, 9.0, 6.0, 5.0]
    seen = 0
    for i, ax in enumerate(main_axes(fig, kind)):
        for c in ax.collections:
            if c.get_array() is None:
                continue
            seen += 1
            sizes = [float(x) for x in c.get_sizes()]
            if not sizes or any(abs(x - want[i % 4] ** 2) > 1e-6 for x in sizes):
                return "panel %d: marker areas %s, expected %s (marker size %s)" % (i, sizes[:3], want[i % 4] ** 2, want[i % 4])
    if not seen:
        return "no coloured scatter found"


def p_labfs(fig, kind, info):
    for ax in main_axes(fig, kind):
        for lab in (ax.xaxis.label, ax.yaxis.label):
            if lab.get_text() and abs(lab.get_fontsize() - 11) > 1e-6:
                return "axis label %r font size %r, expected 11" % (lab.get_text(), lab.get_fontsize())


def p_tickfs(fig, kind, info):
    for ax in main_axes(fig, kind):
        labs = vis_labels(ax.get_xticklabels()) + vis_labels(ax.get_yticklabels())
        if labs and any(abs(t.get_fontsize() - 9) > 1e-6 for t in labs):
            return "tick label font sizes %s, expected 9" % sorted(set(t.get_fontsize() for t in labs))


def p_titlefs(fig, kind, info):
    seen = 0
    for ax in main_axes(fig, kind):
        if ax.get_title():
            seen += 1
            if abs(ax.title.get_fontsize() - 23) > 1e-6:
                return "title font size %r, expected 23" % ax.title.get_fontsize()
    if not seen:
        return "no title to inspect"


def p_afs(fig, kind, info):
    ax = main_axes(fig, kind)[0]
    texts = [t for t in ax.texts]
    if not texts:
        return "no annotations"
    if any(abs(t.get_fontsize() - 5) > 1e-6 for t in texts):
        return "annotation font sizes %s, expected 5" % sorted(set(t.get_fontsize() for t in texts))


def _grid(ax):
    return [g for g in ax.get_xgridlines() + ax.get_ygridlines()]


def p_gc(fig, kind, info):
    for ax in main_axes(fig, kind):
        if any(not color_eq(g.get_color(), "red") for g in _grid(ax)):
            return "grid colours %s, expected red" % sorted(set(str(g.get_color()) for g in _grid(ax)))


def p_gs(fig, kind, info):
    for ax in main_axes(fig, kind):
        if any(g.get_linestyle() != ":" for g in _grid(ax)):
            return "grid line styles %s, expected ':'" % sorted(set(str(g.get_linestyle()) for g in _grid(ax)))


def p_gw(fig, kind, info):
    for ax in main_axes(fig, kind):
        if any(abs(g.get_linewidth() - 3) > 1e-6 for g in _grid(ax)):
            return "grid line widths %s, expected 3" % sorted(set(g.get_linewidth() for g in _grid(ax)))


def p_nogrid(fig, kind, info):
    for ax in main_axes(fig, kind):
        if any(bool(g.get_visible()) for g in _grid(ax)):
            return "grid lines are visible"


def p_sp(fig, kind, info):
    ax = main_axes(fig, kind)[0]
    m = [l for l in ax.get_lines() if l.get_label() == "ideal"]
    if not m:
        return "no 'ideal' line"
    if kind == "qq":
        # the perfect score of a qq diagram is the 1:1 line: it must run along the whole visible part of the diagonal
        xs, ys = list(m[0].get_xdata()), list(m[0].get_ydata())
        if any(abs(x - y) > 1e-9 for x, y in zip(xs, ys)):
            return "the 'ideal' line is not the diagonal: %s / %s" % (xs, ys)
        lo = max(ax.get_xlim()[0], ax.get_ylim()[0])
        hi = min(ax.get_xlim()[1], ax.get_ylim()[1])
        if hi > lo and (min(xs) > lo + 1e-6 * (hi - lo) or max(xs) < hi - 1e-6 * (hi - lo)):
            return "the 'ideal' diagonal spans [%g, %g] but the visible diagonal is [%g, %g]" % (min(xs), max(xs), lo, hi)
        return None
    if any(abs(y - 0) > 1e-9 for y in m[0].get_ydata()):
        return "perfect-score line at %s, expected 0 for mae" % list(m[0].get_ydata())
    xs = [float(x) for x in m[0].get_xdata()]
    pts = [float(x) for l in ax.get_lines() if l is not m[0] for x in l.get_xdata() if x == x]
    if not (max(xs) > min(xs)):
        return "the perfect-score line has no length (x from %r to %r): nothing is drawn" % (min(xs), max(xs))
    if pts and (min(xs) > min(pts) + 1e-9 or max(xs) < max(pts) - 1e-9):
        return "the perfect-score line spans x in [%g, %g] but scores are plotted over [%g, %g]" % (min(xs), max(xs), min(pts), max(pts))


def p_aspect(fig, kind, info):
    for ax in main_axes(fig, kind):
        if ax.get_aspect() != 2.0:
            return "aspect %r, expected 2" % (ax.get_aspect(),)


def p_fs(fig, kind, info):
    w, h = fig.get_size_inches()
    if not (_close(w, 10) and _close(h, 4)):
        return "figure size %s, expected (10, 4)" % ((w, h),)


def p_left(fig, kind, info):
    if not _close(fig.subplotpars.left, 0.21):
        return "left margin %r, expected 0.21" % fig.subplotpars.left
    return _pixels_late(fig, info)


def p_right(fig, kind, info):
    if not _close(fig.subplotpars.right, 0.88):
        return "right margin %r, expected 0.88" % fig.subplotpars.right
    return _pixels_late(fig, info)


def p_top(fig, kind, info):
    if not _close(fig.subplotpars.top, 0.83):
        return "top margin %r, expected 0.83" % fig.subplotpars.top
    return _pixels_late(fig, info)


def p_bottom(fig, kind, info):
    if not _close(fig.subplotpars.bottom, 0.27):
        return "bottom margin %r, expected 0.27" % fig.subplotpars.bottom
    return _pixels_late(fig, info)


def _pixels_late(fig, info):
    return _pixels(fig, info)


def p_left0(fig, kind, info):
    if not _close(fig.subplotpars.left, 0.0):
        return "left margin %r, expected 0" % fig.subplotpars.left
    return _pixels(fig, info)


def p_bottom0(fig, kind, info):
    if not _close(fig.subplotpars.bottom, 0.0):
        return "bottom margin %r, expected 0" % fig.subplotpars.bottom
    return _pixels(fig, info)


def _pixels(fig, info):
    """with explicit margins the image is the whole canvas: figure size x dpi pixels"""
    px = info.get("png_size")
    if px is None:
        return "no png written"
    w, h = fig.get_size_inches()
    dpi = info.get("dpi", 100)
    if abs(px[0] - w * dpi) > 1 or abs(px[1] - h * dpi) > 1:
        return "png is %sx%s pixels, expected %gx%g (figure %gx%g in at %g dpi, explicit margins)" % (px[0], px[1], w * dpi, h * dpi, w, h, dpi)


def p_nomargin(fig, kind, info):
    sp = fig.subplotpars
    if not (_close(sp.left, 0) and _close(sp.right, 1) and _close(sp.bottom, 0) and _close(sp.top, 1)):
        return "margins (%r,%r,%r,%r), expected (0,1,0,1)" % (sp.left, sp.right, sp.bottom, sp.top)


def p_dpi(fig, kind, info):
    px = info.get("png_size")
    if px is None:
        return "no png written"
    w, h = fig.get_size_inches()
    if info.get("explicit_margins") and (abs(px[0] - w * 50) > 1 or abs(px[1] - h * 50) > 1):
        return "png is %sx%s pixels, expected %gx%g at 50 dpi" % (px[0], px[1], w * 50, h * 50)
    if not info.get("explicit_margins") and (px[0] > w * 50 * 2.5 or px[1] > h * 50 * 2.5):
        return "png is %sx%s pixels for %gx%g inches at 50 dpi" % (px[0], px[1], w, h)


def _ann(fig, kind):
    ax = main_axes(fig, kind)[0]
    return [t.get_text().strip() for t in ax.texts]


def p_a(fig, kind, info):
    if not _ann(fig, kind):
        return "-a produced no annotation"
    if kind in ("std", "std5", "stdgap"):
        # every annotation sits on its own point and says "<score> <lead time>" of that point
        ax = main_axes(fig, kind)[0]
        pts = set()
        for l in ax.get_lines():
            for x, y in zip(l.get_xdata(), l.get_ydata()):
                if x == x and y == y:
                    pts.add(("%g" % y, "%g" % x))
        for t in ax.texts:
            x, y = t.get_position()
            parts = t.get_text().split()
            if len(parts) != 2:
                return "annotation text %r is not '<score> <lead time>'" % t.get_text()
            if parts != ["%g" % y, "%g" % x]:
                return "the annotation at (%g, %g) says %r" % (x, y, t.get_text())
            if (parts[0], parts[1]) not in pts:
                return "annotation %r at (%g, %g) is not on a plotted point" % (t.get_text(), x, y)
        n_pts = len(pts)
        if len(set((t.get_position()) for t in ax.texts)) < min(n_pts, 2):
            return "%d points are plotted but only %d are annotated" % (n_pts, len(ax.texts))


def make_af(field):
    def probe(fig, kind, info):
        texts = _ann(fig, kind)
        if not texts:
            return "no annotations"
        col = {"lat": 1, "lon": 2, "elev": 3, "location": 0}[field]
        want = set("%g" % l[col] for l in info["locs"])
        got = set(texts)
        if not got <= want or not got:
            return "-af %s annotates %s, the locations' %s values are %s" % (field, sorted(got)[:6], field, sorted(want))
    return probe


OPTIONS = {
    # name: (argv, kinds, probe, conflict group, requires)
    "title": (["-title", "My_title_1"], ["time", "std", "loc", "map", "pithist", "igncontrib", "against"], p_title, None),
    "xlabel": (["-xlabel", "Xlab"], ["time", "std", "loc", "pithist", "igncontrib", "against"], p_xlabel, None),
    "ylabel": (["-ylabel", "Ylab"], ["time", "std", "loc", "pithist", "igncontrib", "against"], p_ylabel, None),
    "clabel": (["-clabel", "Clab"], ["map"], p_clabel, None),
    "xlim": (["-xlim", "1,40"], ["std", "qq", "igncontrib"], p_xlim, "xl"),
    "ylim": (["-ylim", "0.5,30"], ["time", "std", "qq", "loc", "pithist"], p_ylim, "yl"),
    "clim": (["-clim", "1,7"], ["map"], p_clim, None),
    "xticks": (["-xticks", "0,12,24"], ["std"], p_xticks, "xt"),
    "xticklabels": (["-xticks", "0,12,24", "-xticklabels", "a,b,c"], ["std"], p_xticklabels, "xt"),
    "xticks-date": (["-xticks", "DATES"], ["time"], p_xticks_date, "xt"),
    "xticklabels-date": (["-xticks", "DATES", "-xticklabels", "first,last"], ["time"], p_xticklabels_date, "xt"),
    "yticks": (["-yticks", "0,5,10"], ["time", "std", "loc"], p_yticks, "yt"),
    "yticklabels": (["-yticks", "0,5,10", "-yticklabels", "lo,mid,hi"], ["std", "loc"], p_yticklabels, "yt"),
    "xrot": (["-xrot", "35"], ["time", "std", "loc", "pithist", "igncontrib"], p_xrot, None),
    "yrot": (["-yrot", "25"], ["std", "loc", "pithist", "igncontrib"], p_yrot, None),
    "xlog": (["-xlog"], ["std"], p_xlog, "xlog"),
    "ylog": (["-ylog"], ["std", "loc"], p_ylog, "ylog"),
    "leg": (["-leg", "LEGNAMES"], ["time", "std", "std5", "loc", "map", "igncontrib"], p_leg, None),
    "legfs": (["-legfs", "7"], ["std", "loc", "igncontrib"], p_legfs, "legfs"),
    "legfs0": (["-legfs", "0"], ["std", "loc", "igncontrib"], p_legfs0, "legfs"),
    "legloc": (["-legloc", "lower_left"], ["std", "loc", "igncontrib"], p_legloc, "legfs0x"),
    "lc": (["-lc", "red,blue"], ["time", "std", "std5", "loc", "tsens", "igncontrib"], p_lc, None),
    "ls": (["-ls", "--,:,-."], ["std", "std5", "tsens", "igncontrib"], p_ls, None),
    "lw": (["-lw", "3,1"], ["std", "std5", "tsens", "igncontrib"], p_lw, None),
    "ma": (["-ma", "x,s,^"], ["std", "std5", "loc", "igncontrib"], p_ma, None),
    "ms": (["-ms", "4,9,6,5"], ["std", "std5", "loc", "igncontrib"], p_ms, None),
    "ms-map": (["-ms", "4,9,6,5"], ["map"], p_ms_map, None),
    "labfs": (["-labfs", "11"], ["time", "std", "loc", "pithist", "igncontrib", "against"], p_labfs, None),
    "tickfs": (["-tickfs", "9"], ["time", "std", "loc", "pithist", "igncontrib", "against"], p_tickfs, None),
    "titlefs": (["-title", "My_title_1", "-titlefs", "23"], ["std", "loc", "pithist"], p_titlefs, "title"),
    "afs": (["-a", "-afs", "5"], ["std", "stdgap", "loc"], p_afs, "a"),
    "gc": (["-gc", "red"], ["time", "std", "loc", "pithist", "igncontrib", "against"], p_gc, "grid1"),
    "gs": (["-gs", ":"], ["std", "loc", "pithist", "igncontrib", "against"], p_gs, "grid2"),
    "gw": (["-gw", "3"], ["std", "loc", "pithist", "igncontrib", "against"], p_gw, "grid3"),
    "nogrid": (["-nogrid"], ["std", "loc", "pithist", "igncontrib", "against"], p_nogrid, "nogrid"),
    "sp": (["-sp"], ["std", "std1", "qq"], p_sp, "sp"),
    "aspect": (["-aspect", "2"], ["std", "loc", "pithist"], p_aspect, None),
    "fs": (["-fs", "10,4"], ["std", "loc", "map", "pithist", "igncontrib", "against"], p_fs, None),
    "dpi": (["-dpi", "50"], ["std", "loc", "map", "pithist", "igncontrib", "against"], p_dpi, None),
    "left": (["-left", "0.21"], ["std", "loc", "pithist", "igncontrib", "against"], p_left, "margin"),
    "right": (["-right", "0.88"], ["std", "loc", "pithist", "igncontrib", "against"], p_right, "margin2"),
    "top": (["-top", "0.83"], ["std", "loc", "pithist", "igncontrib", "against"], p_top, "margin3"),
    "bottom": (["-bottom", "0.27"], ["std", "loc", "pithist", "igncontrib", "against"], p_bottom, "margin4"),
    "left0": (["-left", "0"], ["std", "loc", "pithist"], p_left0, "margin"),
    "bottom0": (["-bottom", "0"], ["std", "loc", "pithist"], p_bottom0, "margin4"),
    "nomargin": (["-nomargin"], ["std", "loc", "pithist"], p_nomargin, "nomargin"),
    "a": (["-a"], ["std", "std5", "stdgap", "loc"], p_a, "a"),
    "af-lat": (["-a", "-af", "lat"], ["loc"], make_af("lat"), "a"),
    "af-lon": (["-a", "-af", "lon"], ["loc"], make_af("lon"), "a"),
    "af-elev": (["-a", "-af", "elev"], ["loc"], make_af("elev"), "a"),
    "af-location": (["-a", "-af", "location"], ["loc"], make_af("location"), "a"),
}
EXCLUSIVE = [("nogrid", "gc"), ("nogrid", "gs"), ("nogrid", "gw"), ("nomargin", "left"), ("nomargin", "right"), ("nomargin", "top"),
             ("nomargin", "bottom"), ("nomargin", "left0"), ("nomargin", "bottom0"), ("legfs0", "leg"), ("legfs0", "legloc"), ("legfs0", "legfs"), ("title", "titlefs"),
             ("aspect", "ylim"), ("aspect", "xlim"), ("xlog", "xticks"), ("xlog", "xticklabels"), ("ylog", "yticks"),
             ("ylog", "yticklabels"), ("ylog", "sp"), ("xlog", "xlim"), ("ylog", "ylim")]


def compatible(names):
    groups = {}
    for n in names:
        g = OPTIONS[n][3]
        if g and g in groups:
            return False
        if g:
            groups[g] = n
    for a, b in EXCLUSIVE:
        if a in names and b in names:
            return False
    return True


def plan(tier, seed):
    shards = [{"part": "single", "seed": seed, "k": k, "of": 8} for k in range(8)]
    n = 8 if tier == "quick" else 250
    shards += [{"part": "subsets", "seed": seed, "k": k, "n": n} for k in range(8)]
    shards += [{"part": "formats", "seed": seed}]
    shards += [{"part": "pairs", "seed": seed, "k": k, "of": 6} for k in range(6)]
    return shards


_files = {}


def files_for(ctx, seed, F, gap=False, ens=False):
    key = (seed, F, gap, ens)
    if key not in _files:
        rng = random.Random("C17-data-%s-%s" % (seed, F))
        d = os.path.join(ctx.workdir, "data%d%s%s" % (F, "gap" if gap else "", "ens" if ens else ""))
        os.makedirs(d, exist_ok=True)
        ds = gen.make_dataset(rng, n_inputs=F, fmt="text", prob=True, pit=True, ens=ens, members=(3 if ens else None), miss=0.05, sparse=0.0, same_dims=True,
                              thresholds=[0.0, 5.0, 10.0], quantiles=[0.1, 0.5, 0.9], max_t=4, max_l=5, max_s=4, vrange=(1, 14),
                              leadtime_pool=[0, 6, 12, 18, 24, 30, 36, 48])
        if gap:
            l_gap = sorted(ds["inputs"][0]["leadtimes"])[1]
            for inp in ds["inputs"]:
                for k_, c_ in inp["cells"].items():
                    if k_.split("|")[1] == gen.fnum(l_gap):
                        c_["obs"] = None
        paths, _ = gen.materialize(ds, d, None)
        from vmon import refmodel
        _files[key] = (ds, paths, refmodel.common_dims(ds)[2])
    return _files[key]


def png_size(path):
    b = open(path, "rb").read(32)
    if b[:8] != b"\x89PNG\r\n\x1a\n":
        return None
    return struct.unpack(">II", b[16:24])


def run_figure(ctx, kind, names, seed, tag):
    """Produce the figure with the given options; returns (fig, info) or (None, reason)."""
    F, base = KINDS[kind]
    ds, paths, locs = files_for(ctx, seed, F, gap=(kind == "stdgap"), ens=(kind == "tsens"))
    argv = [gen.fnum(locs[0][0]) if a == "LOC0" else a for a in base]
    legnames = ["Name %d" % i for i in range(F)]
    from vmon import refmodel
    ctimes = refmodel.common_dims(ds)[0]
    tick_days = [min(ctimes) // 86400 * 86400, max(ctimes) // 86400 * 86400 + 86400]
    tick_dates = [refmodel.date_of(t) for t in tick_days]
    for n in names:
        frag = [("Name_%d" % 0 if False else x) for x in OPTIONS[n][0]]
        frag = [",".join(x.replace(" ", "_") for x in legnames) if x == "LEGNAMES" else x for x in frag]
        frag = [",".join("%d" % x_ for x_ in tick_dates) if x == "DATES" else x for x in frag]
        argv += frag
    out = os.path.join(ctx.workdir, "fig-%s.png" % tag)
    if os.path.exists(out):
        os.remove(out)
    o = runner.run_cli(paths + argv + ["-f", out], keep_fig=True)
    ctx.count("figures")
    if o.status != "ok":
        return None, "verif %s : %s" % (" ".join(argv), o.brief())
    try:
        o.fig.canvas.draw()
    except Exception as e:
        return None, "drawing failed: %r" % e
    info = {"tick_days": tick_days, "tick_dates": tick_dates, "F": F, "names": legnames if "leg" in names else [i["name"] for i in ds["inputs"]], "locs": locs,
            "png_size": png_size(out) if os.path.exists(out) else None,
            "explicit_margins": any(n in names for n in ("left", "right", "top", "bottom", "left0", "bottom0")),
            "dpi": 50 if "dpi" in names else 100, "argv": argv, "file": out}
    return o.fig, info


def check(ctx, kind, names, seed, tag, default_fails):
    import matplotlib.pyplot as mpl
    fig, info = run_figure(ctx, kind, names, seed, tag)
    case = {"kind": kind, "options": sorted(names)}
    sig = "%s|%s" % ("+".join(sorted(names)), kind)
    if fig is None:
        ctx.violation("figure-not-produced|%s" % "+".join(sorted(names))[:60], info, case)
        ctx.case(sig, False)
        return
    if not os.path.exists(info["file"]) or os.path.getsize(info["file"]) == 0:
        ctx.violation("image-not-written", "no file at -f path for %s" % info["argv"], case)
    nontrivial = False
    for n in names:
        ctx.count("probes")
        msg = OPTIONS[n][2](fig, kind, info)
        if default_fails.get((kind, n)):
            nontrivial = True
        if msg:
            alone = len(names) == 1
            ctx.violation("option-not-honoured|%s|%s" % (n, "alone" if alone else "with-others"),
                          "verif <files> %s\noption %s (%s) on the %s figure: %s" % (" ".join(info["argv"]), n, " ".join(OPTIONS[n][0]), kind, msg), case)
    ctx.case(sig, nontrivial, {"kind": kind, "argv": info["argv"], "png_pixels": info["png_size"]})
    mpl.close("all")


def default_failures(ctx, seed):
    """Which probes fail on the default figure (i.e. the option has an effect worth verifying)."""
    import matplotlib.pyplot as mpl
    res = {}
    for kind in KINDS:
        fig, info = run_figure(ctx, kind, [], seed, "default-" + kind)
        if fig is None:
            continue
        for n, (argv, kinds, probe, grp) in OPTIONS.items():
            if kind in kinds:
                try:
                    res[(kind, n)] = probe(fig, kind, info) is not None
                except Exception:
                    res[(kind, n)] = True
        mpl.close("all")
    return res


def run_single(desc, ctx):
    df = default_failures(ctx, desc["seed"])
    i = 0
    for n in sorted(OPTIONS):
        for kind in OPTIONS[n][1]:
            i += 1
            if i % desc["of"] != desc["k"]:
                continue
            ctx.count("single_option_runs")
            check(ctx, kind, [n], desc["seed"], "s%d" % i, df)


def run_subsets(desc, ctx):
    rng = random.Random("C17-sub-%s-%s" % (desc["seed"], desc["k"]))
    df = default_failures(ctx, desc["seed"])
    for ci in range(desc["n"]):
        kind = rng.choice(["std", "std", "std5", "stdgap", "qq", "loc", "loc", "map", "pithist", "igncontrib", "against", "time"])
        cand = [n for n in OPTIONS if kind in OPTIONS[n][1]]
        for _ in range(30):
            names = rng.sample(cand, min(len(cand), rng.randint(2, 7)))
            if compatible(names):
                break
        else:
            continue
        ctx.count("subset_runs")
        check(ctx, kind, names, desc["seed"], "m%d" % ci, df)


FAMILIES = [["gc", "gs", "gw"], ["left", "right", "top", "bottom", "fs", "dpi"], ["left0", "right", "bottom0", "top", "fs", "dpi"], ["xrot", "yrot", "tickfs"],
            ["title", "xlabel", "ylabel", "labfs"], ["titlefs", "xlabel", "labfs"], ["leg", "legfs", "legloc"],
            ["lc", "ls", "lw", "ma", "ms"], ["xlim", "ylim"], ["xlim", "xticks"], ["ylim", "yticks"], ["xlim", "xticklabels"],
            ["ylim", "yticklabels"], ["ylim", "sp"], ["xlog", "ylog"], ["xticks", "yticks"], ["a", "tickfs"], ["afs", "labfs"],
            ["xticks-date", "xrot", "tickfs", "ylim"], ["xticklabels-date", "xrot", "tickfs", "yticks", "title"]]


def run_pairs(desc, ctx):
    """all pairs of related options (the interactions most likely to share code) on the standard figure"""
    import itertools
    df = default_failures(ctx, desc["seed"])
    i = 0
    for fam in FAMILIES:
        for a, b in itertools.combinations(fam, 2):
            for kind in ("std", "std1", "std5", "stdgap", "qq", "pithist", "time"):
                if kind not in OPTIONS[a][1] or kind not in OPTIONS[b][1] or not compatible([a, b]):
                    continue
                i += 1
                if i % desc["of"] != desc["k"]:
                    continue
                ctx.count("subset_runs")
                check(ctx, kind, [a, b], desc["seed"], "p%d" % i, df)
    if desc["k"] == 0:
        # the three options that meet in the perfect-score diagonal
        for trio in (["sp", "xlim", "ylim"], ["sp", "xlim"], ["sp", "ylim"]):
            ctx.count("subset_runs")
            check(ctx, "qq", trio, desc["seed"], "q" + "".join(t[0] for t in trio), df)


def run_formats(desc, ctx):
    import matplotlib.pyplot as mpl
    F, base = KINDS["std"]
    ds, paths, locs = files_for(ctx, desc["seed"], F)
    magic = {"png": b"\x89PNG", "pdf": b"%PDF", "svg": b"<?xml", "jpg": b"\xff\xd8\xff", "ps": b"%!PS", "eps": b"%!PS"}
    for ext, m in magic.items():
        out = os.path.join(ctx.workdir, "fmt." + ext)
        o = runner.run_cli(paths + base + ["-f", out])
        mpl.close("all")
        ctx.count("file_format_checks")
        ctx.case("format|%s" % ext, True, {"argv": base + ["-f", "fmt." + ext]})
        if o.status != "ok" or not os.path.exists(out):
            ctx.violation("image-format|%s|not-written" % ext, "verif ... -f fmt.%s : %s" % (ext, o.brief()), {"ext": ext})
            continue
        head = open(out, "rb").read(8)
        if not head.startswith(m):
            ctx.violation("image-format|%s|wrong-content" % ext, "file fmt.%s starts with %r" % (ext, head), {"ext": ext})


def run_shard(desc, ctx):
    {"single": run_single, "subsets": run_subsets, "formats": run_formats, "pairs": run_pairs}[desc["part"]](desc, ctx)


def replay(case, ctx):
    if case and "options" in case:
        df = default_failures(ctx, 0)
        check(ctx, case["kind"], case["options"], 0, "replay", df)
    else:
        run_formats({"seed": 0}, ctx)
