"""C16, second group of diagrams (imported by c16)."""
import math

from vmon import attach, gen, refmetrics, refmodel, vutil

NAN = float("nan")
PROB = set(["qq-q", "marginal", "invreliability", "invreliability-auto", "spreadskill", "murphy", "economicvalue", "bsdecomp", "igncontrib"])
FIXED_F = {"meteo": 1, "against": 2, "impact": 2, "rank": 2, "mapimpact": 2}


def _c16():
    from vmon.props import c16
    return c16


def _evp(ds, k, b, t):
    return _c16()._event_prob_cases(ds, k, b, t)


def d_marginal(ctx, rng, ds, paths, kind):
    c = _c16()
    ts = sorted(rng.sample(ds["inputs"][0]["thresholds"], 2))
    b = rng.choice(["above", "below=", "below", "above="])
    argv = ["-m", "marginal", "-r", ",".join(gen.fnum(t) for t in ts), "-b", b]
    fig, case = c.run(ctx, paths, argv, ds)
    if fig is None:
        return
    F = len(ds["inputs"])
    distinct = 0
    for k in range(F):
        ls = fig.lines(0, ds["inputs"][k]["name"])
        if len(ls) != 1:
            ctx.violation("marginal|series-missing", "no line for input %d" % k, case)
            continue
        gx, gy = fig.xy(ls[0])
        want = []
        for t in ts:
            o, p = _evp(ds, k, b, t)
            want.append(refmetrics.mean(p))
        c.compare_series(ctx, "marginal", "mean event probability per threshold, input %d (bin %s)" % (k, b), gy, want, case)
        c.compare_series(ctx, "marginal", "x thresholds", gx, ts, case)
        distinct = max(distinct, len(set(gy)))
    lo = fig.lines(0, "Observed")
    if lo:
        gx, gy = fig.xy(lo[0])
        want = [refmetrics.mean(_evp(ds, F - 1, b, t)[0]) for t in ts]
        c.compare_series(ctx, "marginal", "observed event frequency per threshold", gy, want, case)
    c.done(ctx, "marginal", argv, kind, F, distinct)


def d_invreliability(ctx, rng, ds, paths, kind):
    c = _c16()
    q = rng.choice(ds["inputs"][0]["quantiles"])
    edges = [0.0, 3.0, 6.0, 9.0, 12.0, 15.0]
    argv = ["-m", "invreliability", "-q", gen.fnum(q), "-r", ",".join(gen.fnum(e) for e in edges), "-simple"]
    fig, case = c.run(ctx, paths, argv, ds)
    if fig is None:
        return
    F = len(ds["inputs"])
    distinct = 0
    for k in range(F):
        ls = fig.lines(0, ds["inputs"][k]["name"])
        if len(ls) != 1:
            ctx.violation("invreliability|series-missing", "no line for input %d" % k, case)
            continue
        gx, gy = fig.xy(ls[0])
        cs = [cc[3] for cc in refmodel.valid_cases(ds, k, [("obs",), ("q", q)])]
        wx, wy = [], []
        for i in range(len(edges) - 1):
            sel = [(o, v) for o, v in cs if edges[i] <= v < edges[i + 1]]
            wx.append(refmetrics.mean([v for o, v in sel]) if sel else 0.0)
            wy.append(refmetrics.mean([1.0 if o <= v else 0.0 for o, v in sel]) if len(sel) >= 2 else NAN)
        c.compare_series(ctx, "invreliability", "fraction obs <= quantile forecast per forecast bin, input %d (q=%s)" % (k, q), gy, wy, case)
        c.compare_series(ctx, "invreliability", "x mean quantile forecast per bin, input %d" % k, gx, wx, case)
        distinct = max(distinct, len(set(y for y in gy if y == y)))
    c.done(ctx, "invreliability", argv, kind, F, distinct)


def d_invreliability_auto(ctx, rng, ds, paths, kind):
    """several quantile levels and no -r: each level is binned on 11 equal bins between the smallest and largest
    observation of its own valid cases; one curve per (level, input), level-major"""
    c = _c16()
    allq = ds["inputs"][0]["quantiles"]
    qs = rng.sample(allq, rng.randint(2, min(3, len(allq)))) if len(allq) >= 2 else list(allq)
    argv = ["-m", "invreliability", "-q", ",".join(gen.fnum(q) for q in qs), "-simple"]
    fig, case = c.run(ctx, paths, argv, ds)
    if fig is None:
        return
    F = len(ds["inputs"])
    N = 11
    curves = [l for l in fig.lines(0) if len(fig.xy(l)[0]) == N]
    if len(curves) != F * len(qs):
        ctx.violation("invreliability|series-count", "%d curves of %d bins for %d inputs and %d quantile levels" % (len(curves), N, F, len(qs)), case)
        return
    distinct = 0
    for t, q in enumerate(qs):
        obs0 = [cc[3][0] for cc in refmodel.valid_cases(ds, 0, [("obs",), ("q", q)])]
        if not obs0:
            continue
        lo, hi = min(obs0), max(obs0)
        edges = [lo + (hi - lo) * i / float(N) for i in range(N + 1)]
        edges[-1] = hi
        for k in range(F):
            gx, gy = fig.xy(curves[t * F + k])
            cs = [cc[3] for cc in refmodel.valid_cases(ds, k, [("obs",), ("q", q)])]
            # a forecast within rounding of a computed bin edge may fall on either side: such datasets are not decided
            if any(abs(v - e) <= 1e-9 * max(1.0, abs(e)) for o, v in cs for e in edges[1:-1]):
                ctx.count("invreliability_auto_edge_ties_skipped")
                continue
            wx, wy = [], []
            for i in range(N):
                sel = [(o, v) for o, v in cs if edges[i] <= v < edges[i + 1]]
                wx.append(refmetrics.mean([v for o, v in sel]) if sel else 0.0)
                wy.append(refmetrics.mean([1.0 if o <= v else 0.0 for o, v in sel]) if len(sel) >= 2 else NAN)
            c.compare_series(ctx, "invreliability", "fraction obs <= quantile forecast per automatic bin, input %d (q=%s, level %d of %d)" % (k, q, t + 1, len(qs)), gy, wy, case)
            c.compare_series(ctx, "invreliability", "x mean quantile forecast per automatic bin, input %d (q=%s)" % (k, q), gx, wx, case)
            distinct = max(distinct, len(set(y for y in gy if y == y)))
    ctx.count("invreliability_multi_quantile_figures")
    c.done(ctx, "invreliability-auto", argv, kind, F, distinct)


def d_droc(ctx, rng, ds, paths, kind, classic=False):
    c = _c16()
    t = c._thresholds(rng, ds, 3)[1]
    b = rng.choice(["above", "below=", "above="])
    name = "droc0" if classic else "droc"
    argv = ["-m", name, "-r", gen.fnum(t), "-b", b, "-simple"]
    fig, case = c.run(ctx, paths, argv, ds)
    if fig is None:
        return
    F = len(ds["inputs"])
    fts = [t] if classic else [t - 10 + i * (20.0 / 30) for i in range(31)]
    distinct = 0
    for k in range(F):
        ls = fig.lines(0, ds["inputs"][k]["name"])
        if len(ls) != 1:
            ctx.violation("%s|series-missing" % name, "no line for input %d" % k, case)
            continue
        gx, gy = fig.xy(ls[0])
        p = c.pairs(ds, k)
        wx, wy = [1.0], [1.0]
        for ft in fts:
            tab = c._table(p, b, t, ft)
            wx.append(refmetrics.categorical("fa", *tab))
            wy.append(refmetrics.categorical("hit", *tab))
        wx.append(0.0)
        wy.append(0.0)
        c.compare_series(ctx, name, "hit rate per forecast threshold, input %d (bin %s)" % (k, b), gy, wy, case, 1e-6, 1e-7)
        c.compare_series(ctx, name, "false alarm rate per forecast threshold, input %d" % k, gx, wx, case, 1e-6, 1e-7)
        distinct = max(distinct, len(set(y for y in gy if y == y)))
    c.done(ctx, name, argv, kind, F, distinct)


def d_droc0(ctx, rng, ds, paths, kind):
    d_droc(ctx, rng, ds, paths, kind, classic=True)


def d_spreadskill(ctx, rng, ds, paths, kind):
    c = _c16()
    qs = ds["inputs"][0]["quantiles"]
    lo, hi = qs[0], qs[-1]
    ts = [0.0, 1.0, 2.0, 4.0, 8.0, 16.0]
    argv = ["-m", "spreadskill", "-q", "%s,%s" % (gen.fnum(lo), gen.fnum(hi)), "-r", ",".join(gen.fnum(t) for t in ts)]
    fig, case = c.run(ctx, paths, argv, ds)
    if fig is None:
        return
    F = len(ds["inputs"])
    distinct = 0
    for k in range(F):
        ls = fig.lines(0, ds["inputs"][k]["name"])
        if len(ls) != 1:
            ctx.violation("spreadskill|series-missing", "no line for input %d" % k, case)
            continue
        gx, gy = fig.xy(ls[0])
        cs = [cc[3] for cc in refmodel.valid_cases(ds, k, [("obs",), ("fcst",), ("q", lo), ("q", hi)])]
        wx, wy = [NAN], [NAN]
        for i in range(1, len(ts)):
            sel = [(o, f, b - a) for o, f, a, b in cs if ts[i - 1] < b - a <= ts[i]]
            wx.append(refmetrics.mean([s for o, f, s in sel]) if sel else NAN)
            wy.append(math.sqrt(refmetrics.mean([(o - f) ** 2 for o, f, s in sel])) if sel else NAN)
        c.compare_series(ctx, "spreadskill", "RMSE per spread bin, input %d" % k, gy, wy, case)
        c.compare_series(ctx, "spreadskill", "mean spread per spread bin, input %d" % k, gx, wx, case)
        distinct = max(distinct, len(set(y for y in gy if y == y)))
    c.done(ctx, "spreadskill", argv, kind, F, distinct)


def d_murphy(ctx, rng, ds, paths, kind):
    c = _c16()
    t = rng.choice(ds["inputs"][0]["thresholds"])
    b = rng.choice(["above", "below="])
    argv = ["-m", "murphy", "-r", gen.fnum(t), "-b", b]
    fig, case = c.run(ctx, paths, argv, ds)
    if fig is None:
        return
    F = len(ds["inputs"])
    thetas = [i / 20.0 for i in range(21)]
    import numpy as np
    thetas = [float(x) for x in np.linspace(0, 1, 21)]
    distinct = 0
    for k in range(F):
        ls = fig.lines(0, ds["inputs"][k]["name"])
        if len(ls) != 1:
            ctx.violation("murphy|series-missing", "no line for input %d" % k, case)
            continue
        gx, gy = fig.xy(ls[0])
        o, p = _evp(ds, k, b, t)
        n = float(len(o))
        if n == 0:
            continue
        want = []
        for th in thetas:
            v = 2 * th * sum(1 for a, q in zip(o, p) if q > th and a == 0) / n
            v += 2 * (1 - th) * sum(1 for a, q in zip(o, p) if q < th and a == 1) / n
            v += 2 * th * (1 - th) * sum(1 for q in p if q == th) / n
            want.append(v)
        c.compare_series(ctx, "murphy", "mean elementary score per probability threshold, input %d" % k, gy, want, case, 1e-5, 1e-6)
        distinct = max(distinct, len(set(round(y, 6) for y in gy)))
    c.done(ctx, "murphy", argv, kind, F, distinct)


def d_economicvalue(ctx, rng, ds, paths, kind):
    c = _c16()
    t = rng.choice(ds["inputs"][0]["thresholds"])
    b = rng.choice(["above", "below="])
    argv = ["-m", "economicvalue", "-r", gen.fnum(t), "-b", b]
    fig, case = c.run(ctx, paths, argv, ds)
    if fig is None:
        return
    F = len(ds["inputs"])
    import numpy as np
    ratios = [float(x) for x in np.linspace(0, 1, 21) ** 3]
    distinct = 0
    for k in range(F):
        ls = fig.lines(0, ds["inputs"][k]["name"])
        if len(ls) != 1:
            ctx.violation("economicvalue|series-missing", "no line for input %d" % k, case)
            continue
        gx, gy = fig.xy(ls[0])
        o, p = _evp(ds, k, b, t)
        n = float(len(o))
        if n == 0:
            continue
        clim = refmetrics.mean(o)
        want = []
        for r in ratios:
            cost = r * sum(1 for q in p if q >= r) + sum(1 for a, q in zip(o, p) if q < r and a == 1)
            cost /= n
            climc = min(clim, r)
            perf = clim * r
            want.append((climc - cost) / (climc - perf) if climc != perf else 0.0)
        c.compare_series(ctx, "economicvalue", "economic value per cost/loss ratio, input %d" % k, gy, want, case, 1e-6, 1e-7)
        distinct = max(distinct, len(set(round(y, 6) for y in gy)))
    c.done(ctx, "economicvalue", argv, kind, F, distinct)


def d_bsdecomp(ctx, rng, ds, paths, kind):
    c = _c16()
    t = rng.choice(ds["inputs"][0]["thresholds"])
    b = rng.choice(["above", "below="])
    argv = ["-m", "bsdecomp", "-r", gen.fnum(t), "-b", b]
    fig, case = c.run(ctx, paths, argv, ds)
    if fig is None:
        return
    F = len(ds["inputs"])
    for k in range(F):
        ls = fig.lines(0, ds["inputs"][k]["name"])
        if len(ls) != 1:
            ctx.violation("bsdecomp|series-missing", "no marker for input %d" % k, case)
            continue
        gx, gy = fig.xy(ls[0])
        o, p = _evp(ds, k, b, t)
        c.compare_series(ctx, "bsdecomp", "reliability term, input %d" % k, gx, [refmetrics.brier_rel(o, p)], case)
        c.compare_series(ctx, "bsdecomp", "resolution term, input %d" % k, gy, [refmetrics.brier_res(o, p)], case)
    c.done(ctx, "bsdecomp", argv, kind, F, 2)


def d_igncontrib(ctx, rng, ds, paths, kind):
    c = _c16()
    t = rng.choice(ds["inputs"][0]["thresholds"])
    b = rng.choice(["above", "below="])
    argv = ["-m", "igncontrib", "-r", gen.fnum(t), "-b", b]
    fig, case = c.run(ctx, paths, argv, ds)
    if fig is None:
        return
    F = len(ds["inputs"])
    import numpy as np
    edges = [float(x) for x in np.linspace(0, 1, 12)]
    top, bottom = fig.axes[0], fig.axes[1]
    blines = bottom.get_lines()
    distinct = 0
    for k in range(F):
        o, p = _evp(ds, k, b, t)
        ls = [l for l in top.get_lines() if l.get_label() == ds["inputs"][k]["name"]]
        if len(ls) != 1 or k >= len(blines):
            ctx.violation("igncontrib|series-missing", "lines for input %d not found" % k, case)
            continue
        nx, ny = fig.xy(blines[k])
        ctx.count("bin_conservation_checks")
        if abs(sum(ny) - len(o)) > 1e-6:
            ctx.violation("igncontrib|bin-conservation", "input %d: the bins hold %g cases, %d valid cases exist (p = 1: %d)"
                          % (k, sum(ny), len(o), sum(1 for q in p if q == 1.0)), case)
            continue
        wn, wx, wy = [], [], []
        nb = len(edges) - 1
        for i in range(nb):
            sel = [(a, q) for a, q in zip(o, p) if (edges[i] <= q < edges[i + 1]) or (i == nb - 1 and q == edges[-1])]
            wn.append(float(len(sel)))
            wx.append(refmetrics.mean([q for a, q in sel]) if sel else NAN)
            if sel:
                tot = 0.0
                for a, q in sel:
                    v = q if a == 1 else 1 - q
                    tot += float("inf") if v <= 0 else -math.log(v, 2)
                wy.append(tot)
            else:
                wy.append(NAN)
        N = sum(wn)
        if N == 0:
            continue
        gx, gy = fig.xy(ls[0])
        c.compare_series(ctx, "igncontrib", "cases per probability bin, input %d" % k, ny, wn, case)
        c.compare_series(ctx, "igncontrib", "ignorance contribution per bin, input %d" % k, gy, [y / N * nb for y in wy], case, 1e-6, 1e-7)
        c.compare_series(ctx, "igncontrib", "x mean probability per bin, input %d" % k, gx, wx, case)
        distinct = max(distinct, len(set(y for y in gy if y == y)))
    c.done(ctx, "igncontrib", argv, kind, F, distinct)


def _cube(ds, k, fields):
    """dict (t,l,sid) -> values for valid cases"""
    return {(cc[0], cc[1], cc[2][0]): cc[3] for cc in refmodel.valid_cases(ds, k, fields)}


def d_auto(ctx, rng, ds, paths, kind, func="corr", axis=None, simple=True, tag=""):
    c = _c16()
    axis = axis or rng.choice(["leadtime", "time", "location"])
    name = "autocorr" if func == "corr" else "autocov"
    argv = ["-m", name, "-x", axis] + (["-simple"] if simple else [])
    fig, case = c.run(ctx, paths, argv, ds)
    if fig is None:
        return
    F = len(ds["inputs"])
    times, leads, locs = refmodel.common_dims(ds)
    distinct = 0
    for k in range(F):
        ls = fig.lines(0, ds["inputs"][k]["name"])
        if len(ls) != 1:
            ctx.violation("%s|series-missing" % name, "no marker cloud for input %d" % k, case)
            continue
        gx, gy = fig.xy(ls[0])
        cube = _cube(ds, k, [("obs",), ("fcst",)])
        if axis == "leadtime":
            grid = leads
            others = [(t, s[0]) for t in times for s in locs]
            key = lambda g, o: (o[0], g, o[1])
            dist = lambda a, b: abs(a - b)
        elif axis == "time":
            grid = times
            others = [(l, s[0]) for l in leads for s in locs]
            key = lambda g, o: (g, o[0], o[1])
            dist = lambda a, b: abs(a - b) / 3600.0
        elif axis in ("lat", "lon", "elev"):
            grid = locs
            others = [(t, l) for t in times for l in leads]
            key = lambda g, o: (o[0], o[1], g[0])
            ci = {"lat": 1, "lon": 2, "elev": 3}[axis]
            dist = lambda a, b: abs(a[ci] - b[ci])
        else:
            grid = locs
            others = [(t, l) for t in times for l in leads]
            key = lambda g, o: (o[0], o[1], g[0])

            def dist(a, b):
                if a[1] == b[1] and a[2] == b[2]:
                    return 0.0
                la1, lo1, la2, lo2 = [math.radians(v) for v in (a[1], a[2], b[1], b[2])]
                h = math.sin((la2 - la1) / 2) ** 2 + math.cos(la1) * math.cos(la2) * math.sin((lo2 - lo1) / 2) ** 2
                return 2 * 6.371e6 * math.asin(math.sqrt(h)) / 1000.0
        wx, wy = [], []
        for a in grid:
            for b in grid:
                wx.append(dist(a, b))
                xs, ys = [], []
                for o in others:
                    va, vb = cube.get(key(a, o)), cube.get(key(b, o))
                    if va is not None and vb is not None:
                        xs.append(va[0] - va[1])
                        ys.append(vb[0] - vb[1])
                if len(xs) >= 2:
                    if func == "corr":
                        wy.append(refmetrics.pearson(xs, ys))
                    else:
                        mx, my = refmetrics.mean(xs), refmetrics.mean(ys)
                        wy.append(math.fsum((u - mx) * (v - my) for u, v in zip(xs, ys)) / (len(xs) - 1))
                else:
                    wy.append(NAN)
        c.compare_series(ctx, name, "error %s for every pair along %s, input %d" % (func, axis, k), gy, wy, case, 1e-6, 1e-7)
        c.compare_series(ctx, name, "x distance between the pair (%s)" % axis, gx, wx, case, 2e-3, 1e-3)
        distinct = max(distinct, len(set(round(y, 6) for y in gy if y == y)))
        if not simple:
            # the square marker at distance 0: the median over ALL pairs that are no distance apart (a slice with itself, but also
            # two stations at the same elevation / latitude / longitude or at the same spot)
            sq = [l for l in fig.lines(0) if l.get_marker() == "s" and len(fig.xy(l)[0]) == 1]
            zero = [y for x, y in zip(wx, wy) if x == 0]
            ctx.count("auto_zero_points")
            ctx.count("auto_zero_pairs_off_diagonal", len(zero) - len(grid))
            if len(sq) != F:
                ctx.violation("%s|zero-point-missing" % name, "%d square markers for %d inputs" % (len(sq), F), case)
            else:
                zx, zy = fig.xy(sq[k])
                want0 = NAN if (not zero or any(y != y for y in zero)) else refmetrics.aggregate("median", zero)
                c.compare_series(ctx, name, "zero-distance marker = median error %s of the pairs at distance 0 (-x %s), input %d"
                                 % (func, axis, k), zx + zy, [0.0, want0], case, 1e-6, 1e-7)
    c.done(ctx, name + tag, argv, kind, F, distinct)


# groups of three or four stations share a latitude, a longitude or an elevation (so that the pairs at distance 0 that are NOT a
# station with itself outnumber those that are), and 306 / 307 stand on the same spot
SHARED_LOCS = [[301, 60.0, 10.0, 100.0], [302, 60.0, 11.0, 250.0], [303, 60.0, 12.0, 100.0], [304, 61.0, 10.0, 250.0],
               [305, 61.0, 11.0, 100.0], [306, 61.0, 12.0, 250.0], [307, 61.0, 12.0, 250.0]]


def d_auto_shared(ctx, rng, ds, paths, kind):
    """autocorr / autocov along a location-like axis on a network where stations share an elevation, a latitude, a longitude
    or (306, 307) the position: the complete diagram (no -simple), including the zero-distance marker"""
    import tempfile
    F = rng.choice([1, 2])
    ds2 = gen.make_dataset(rng, n_inputs=F, miss=rng.choice([0.0, 0.05]), sparse=0.0, max_t=8, max_l=3, max_s=7, n_locs=7, same_dims=True,
                           loc_pool=SHARED_LOCS, fmt="text")
    d2 = tempfile.mkdtemp(prefix="autoshared", dir=ctx.workdir)
    paths2, _ = gen.materialize(ds2, d2, None)
    d_auto(ctx, rng, ds2, paths2, kind, rng.choice(["corr", "cov"]), axis=rng.choice(["elev", "lat", "lon", "elev", "lat", "lon", "location", "leadtime"]),
           simple=False, tag="-shared")


def d_autocorr(ctx, rng, ds, paths, kind):
    d_auto(ctx, rng, ds, paths, kind, "corr")


def d_autocov(ctx, rng, ds, paths, kind):
    d_auto(ctx, rng, ds, paths, kind, "cov")


def d_timeseries(ctx, rng, ds, paths, kind):
    c = _c16()
    argv = ["-m", "timeseries"]
    fig, case = c.run(ctx, paths, argv, ds)
    if fig is None:
        return
    F = len(ds["inputs"])
    times, leads, locs = refmodel.common_dims(ds)
    obs = _cube(ds, 0, [("obs",)])
    seen = {}
    for t in times:
        for l in leads:
            vt = (t + l * 3600.0) / 86400.0
            if vt not in seen:
                vals = [obs[(t, l, s[0])][0] for s in locs if (t, l, s[0]) in obs]
                seen[vt] = refmetrics.mean(vals) if vals else NAN
    lo = fig.lines(0, "obs")
    if len(lo) != 1:
        ctx.violation("timeseries|series-missing", "no obs line", case)
    else:
        gx, gy = fig.xy(lo[0])
        c.compare_series(ctx, "timeseries", "obs line x = valid times", gx, sorted(seen), case, 1e-9, 1e-7)
        c.compare_series(ctx, "timeseries", "obs line y = location mean at each valid time", gy, [seen[v] for v in sorted(seen)], case)
    distinct = 0
    for k in range(F):
        fc = _cube(ds, k, [("fcst",)])
        opts_color = None
        lines = [l for l in fig.lines(0) if l.get_label() != "obs"]
        # one line per (input, time); in drawing order input-major
        mine = lines[k * len(times):(k + 1) * len(times)]
        if len(mine) != len(times):
            ctx.violation("timeseries|series-missing", "%d forecast lines for input %d, %d times" % (len(mine), k, len(times)), case)
            continue
        if mine[0].get_label() != ds["inputs"][k]["name"]:
            ctx.violation("timeseries|series-order", "first line of input %d labelled %r" % (k, mine[0].get_label()), case)
        for d, t in enumerate(times):
            gx, gy = fig.xy(mine[d])
            wy = []
            for l in leads:
                vals = [fc[(t, l, s[0])][0] for s in locs if (t, l, s[0]) in fc]
                wy.append(refmetrics.mean(vals) if vals else NAN)
            c.compare_series(ctx, "timeseries", "forecast line input %d run %d" % (k, d), gy, wy, case)
            c.compare_series(ctx, "timeseries", "forecast line x", gx, [t / 86400.0 + l / 24.0 for l in leads], case, 1e-9, 1e-7)
            distinct = max(distinct, len(set(y for y in gy if y == y)))
    c.done(ctx, "timeseries", argv, kind, F, distinct)


def d_timeseries_ens(ctx, rng, ds, paths, kind):
    """timeseries on ensemble inputs: after the obs line and the forecast lines, one thin line per (input, member, run) =
    location mean of THAT member, and with -q one line per (quantile, input, run)"""
    c = _c16()
    qs = sorted(rng.sample([0.25, 0.5, 0.75], rng.choice([0, 1, 2])))
    argv = ["-m", "timeseries"] + (["-q", ",".join(gen.fnum(q) for q in qs)] if qs else [])
    fig, case = c.run(ctx, paths, argv, ds)
    if fig is None:
        return
    F = len(ds["inputs"])
    M = ds["inputs"][0]["members"]
    times, leads, locs = refmodel.common_dims(ds)
    T = len(times)
    lines = [l for l in fig.lines(0) if l.get_label() != "obs"]
    want_n = F * T + F * M * T + len(qs) * F * T
    if len(lines) != want_n:
        ctx.violation("timeseries|series-missing", "%d forecast/member/quantile lines, expected %d (%d inputs, %d members, %d runs, %d quantiles)"
                      % (len(lines), want_n, F, M, T, len(qs)), case)
        return
    pos = F * T
    distinct = 0
    for k in range(F):
        for m in range(M):
            cube = _cube(ds, k, [("ens", m)])
            for d, t in enumerate(times):
                gx, gy = fig.xy(lines[pos])
                pos += 1
                wy = []
                for l in leads:
                    vals = [cube[(t, l, s[0])][0] for s in locs if (t, l, s[0]) in cube]
                    wy.append(refmetrics.mean(vals) if vals else NAN)
                c.compare_series(ctx, "timeseries", "member %d of input %d, run %d: location mean of that member" % (m, k, d), gy, wy, case,
                                 1e-6, 1e-6)
                distinct = max(distinct, len(set(y for y in gy if y == y)))
    for q in qs:
        for k in range(F):
            for d, t in enumerate(times):
                gx, gy = fig.xy(lines[pos])
                pos += 1
                # quantiles taken from the members: only the range is pinned down
                for j, l in enumerate(leads):
                    lo_, hi_ = [], []
                    for s in locs:
                        mem = [refmodel.case_values(ds, k, [("ens", m)], t, l, s[0]) for m in range(M)]
                        if all(v is not None for v in mem):
                            lo_.append(min(v[0] for v in mem))
                            hi_.append(max(v[0] for v in mem))
                    ctx.count("points_compared")
                    if lo_ and j < len(gy) and gy[j] == gy[j]:
                        a, b = refmetrics.mean(lo_), refmetrics.mean(hi_)
                        if not (a - 1e-6 <= gy[j] <= b + 1e-6):
                            ctx.violation("timeseries|quantile-outside-members", "quantile %s input %d run %d lead %s: %r outside [%r, %r]"
                                          % (q, k, d, l, gy[j], a, b), case)
    c.done(ctx, "timeseries-ens", argv, kind, F, distinct)


def d_meteo(ctx, rng, ds, paths, kind):
    c = _c16()
    times, leads, locs = refmodel.common_dims(ds)
    t0 = times[0]
    argv = ["-m", "meteo", "-t", "%d" % t0]
    fig, case = c.run(ctx, paths, argv, ds)
    if fig is None:
        return
    opts = {"times": [t0]}
    distinct = 0
    for label, field in (("Observed", ("obs",)), ("Forecast", ("fcst",))):
        ls = fig.lines(0, label)
        if len(ls) != 1:
            ctx.violation("meteo|series-missing", "no %s line" % label, case)
            continue
        gx, gy = fig.xy(ls[0])
        cube = {(cc[0], cc[1], cc[2][0]): cc[3] for cc in refmodel.valid_cases(ds, 0, [field], opts)}
        wy = []
        for l in leads:
            vals = [cube[(t0, l, s[0])][0] for s in locs if (t0, l, s[0]) in cube]
            wy.append(refmetrics.mean(vals) if vals else NAN)
        c.compare_series(ctx, "meteo", "%s line = location mean per lead time" % label, gy, wy, case)
        c.compare_series(ctx, "meteo", "x = valid time", gx, [(t0 + l * 3600.0) / 86400.0 for l in leads], case, 1e-9, 1e-7)
        distinct = max(distinct, len(set(y for y in gy if y == y)))
    c.done(ctx, "meteo", argv, kind, 1, distinct)


def d_against(ctx, rng, ds, paths, kind):
    c = _c16()
    argv = ["-m", "against"]
    fig, case = c.run(ctx, paths, argv, ds)
    if fig is None:
        return
    lines = fig.lines(0)
    lx = [l for l in lines if l.get_marker() == "x"]
    lsq = [l for l in lines if l.get_marker() == "s"]
    if len(lx) != 1 or len(lsq) != 1:
        ctx.violation("against|series-missing", "markers found: %s" % [l.get_marker() for l in lines], case)
        return
    f0 = _cube(ds, 0, [("fcst",)])
    f1 = _cube(ds, 1, [("fcst",)])
    want = sorted((f0[k][0], f1[k][0]) for k in f0 if k in f1)
    gx, gy = fig.xy(lx[0])
    got = sorted(zip(gx, gy))
    ctx.count("series_compared")
    ctx.count("points_compared", len(want))
    if len(got) != len(want) or any(not (vutil.num_equal(a[0], b[0]) and vutil.num_equal(a[1], b[1])) for a, b in zip(got, want)):
        ctx.violation("against|all-forecast-pairs", "%d points, %d common forecast pairs" % (len(got), len(want)), case)
    a0 = _cube(ds, 0, [("obs",), ("fcst",)])
    a1 = _cube(ds, 1, [("obs",), ("fcst",)])
    want2 = sorted((a0[k][1], a1[k][1]) for k in a0 if k in a1)
    gx, gy = fig.xy(lsq[0])
    got2 = sorted(zip(gx, gy))
    ctx.count("series_compared")
    if len(got2) != len(want2) or any(not (vutil.num_equal(a[0], b[0]) and vutil.num_equal(a[1], b[1])) for a, b in zip(got2, want2)):
        ctx.violation("against|pairs-with-obs", "%d points, %d forecast pairs with a valid observation" % (len(got2), len(want2)), case)
    c.done(ctx, "against", argv, kind, 2, len(set(got)))


def d_change(ctx, rng, ds, paths, kind):
    c = _c16()
    edges = [-20.0, -5.0, -1.0, 0.0, 1.0, 5.0, 20.0]
    argv = ["-m", "change", "-r", ",".join(gen.fnum(e) for e in edges)]
    fig, case = c.run(ctx, paths, argv, ds)
    if fig is None:
        return
    F = len(ds["inputs"])
    times, leads, locs = refmodel.common_dims(ds)
    distinct = 0
    for k in range(F):
        ls = fig.lines(0, ds["inputs"][k]["name"])
        if len(ls) != 1:
            ctx.violation("change|series-missing", "no line for input %d" % k, case)
            continue
        gx, gy = fig.xy(ls[0])
        cube = _cube(ds, k, [("obs",), ("fcst",)])
        items = []
        for ti in range(1, len(times)):
            for l in leads:
                for s in locs:
                    a, b = cube.get((times[ti - 1], l, s[0])), cube.get((times[ti], l, s[0]))
                    if a is not None and b is not None:
                        items.append((b[0] - a[0], abs(b[0] - b[1])))
        wx, wy = [], []
        for i in range(len(edges) - 1):
            sel = [(ch, e) for ch, e in items if edges[i] < ch <= edges[i + 1]]
            wx.append(refmetrics.mean([ch for ch, e in sel]) if sel else NAN)
            wy.append(refmetrics.mean([e for ch, e in sel]) if sel else NAN)
        c.compare_series(ctx, "change", "MAE per obs-change bin, input %d" % k, gy, wy, case)
        c.compare_series(ctx, "change", "mean obs change per bin, input %d" % k, gx, wx, case)
        distinct = max(distinct, len(set(y for y in gy if y == y)))
    c.done(ctx, "change", argv, kind, F, distinct)


def d_map(ctx, rng, ds, paths, kind):
    c = _c16()
    metric = rng.choice(["mae", "bias", "rmse"])
    argv = ["-m", metric, "-type", "map"]
    fig, case = c.run(ctx, paths, argv, ds)
    if fig is None:
        return
    F = len(ds["inputs"])
    times, leads, locs = refmodel.common_dims(ds)
    axs = [a for a in fig.axes if a.get_label() != "<colorbar>"]
    if len(axs) != F:
        ctx.violation("map|panels", "%d map panels for %d inputs" % (len(axs), F), case)
        return
    distinct = 0
    import numpy as np
    for k in range(F):
        cols = [cc for cc in axs[k].collections if cc.get_array() is not None]
        if len(cols) != 1:
            ctx.violation("map|series-missing", "panel %d has %d coloured scatters" % (k, len(cols)), case)
            continue
        off = np.asarray(cols[0].get_offsets(), float)
        arr = np.asarray(cols[0].get_array(), float)
        sl = refmodel.slices(ds, k, [("obs",), ("fcst",)], "location")
        want = []
        for loc, (lab, cs) in zip(locs, sl):
            v = refmetrics.deterministic(metric, [x[0] for x in cs], [x[1] for x in cs])
            if v == v:
                want.append((loc[2], loc[1], v))
        got = sorted((float(off[i, 0]), float(off[i, 1]), float(arr[i])) for i in range(len(arr)))
        want = sorted(want)
        ctx.count("series_compared")
        ctx.count("points_compared", len(want))
        if len(got) != len(want) or any(not all(vutil.num_equal(x, y, 1e-6, 1e-8) for x, y in zip(a, b)) for a, b in zip(got, want)):
            ctx.violation("map|points", "panel %d: drawn (lon, lat, %s) %s, defining %s" % (k, metric, got[:5], want[:5]), case)
        distinct = max(distinct, len(set(g[2] for g in got)))
    c.done(ctx, "map", argv, kind, F, distinct)


def d_mapimpact(ctx, rng, ds, paths, kind):
    """-type mapimpact: a red marker where input 0 is worse (higher MAE), a blue one where input 1 is, at the station's own
    coordinates, with area proportional to the difference; stations without a defined difference are not drawn"""
    import copy
    import tempfile
    import numpy as np
    c = _c16()
    ds = copy.deepcopy(ds)
    times, leads, locs = refmodel.common_dims(ds)
    if len(locs) >= 3:
        # one station (not the last one) never reports: its difference is undefined
        dead = gen.fnum(sorted(l[0] for l in locs)[rng.randrange(len(locs) - 1)])
        for inp in ds["inputs"]:
            for k_, c_ in inp["cells"].items():
                if k_.split("|")[2] == dead:
                    c_["obs"] = None
    d2 = tempfile.mkdtemp(prefix="mapimpact", dir=ctx.workdir)
    paths, _ = gen.materialize(ds, d2, None)
    argv = ["-m", "mae", "-type", "mapimpact"]
    fig, case = c.run(ctx, paths, argv, ds)
    if fig is None:
        return
    sl0 = refmodel.slices(ds, 0, [("obs",), ("fcst",)], "location")
    sl1 = refmodel.slices(ds, 1, [("obs",), ("fcst",)], "location")
    want = {"r": [], "b": []}
    for loc, (lab, cs0), (lab1, cs1) in zip(locs, sl0, sl1):
        m0 = refmetrics.deterministic("mae", [x[0] for x in cs0], [x[1] for x in cs0])
        m1 = refmetrics.deterministic("mae", [x[0] for x in cs1], [x[1] for x in cs1])
        dlt = m0 - m1
        if dlt == dlt and dlt != 0:
            want["r" if dlt > 0 else "b"].append((loc[2], loc[1], abs(dlt)))
    ax = [a for a in fig.axes if a.get_label() != "<colorbar>"][0]
    got = {"r": [], "b": []}
    import matplotlib.colors as mc
    for col in ax.collections:
        fc = col.get_facecolor()
        if len(fc) == 0:
            continue
        key = "r" if mc.to_rgba("r")[:3] == tuple(fc[0][:3]) else "b" if mc.to_rgba("b")[:3] == tuple(fc[0][:3]) else None
        if key is None:
            continue
        off = np.asarray(col.get_offsets(), float)
        sizes = np.asarray(col.get_sizes(), float)
        for i in range(len(off)):
            got[key].append((float(off[i, 0]), float(off[i, 1]), float(sizes[i] if len(sizes) > 1 else sizes[0])))
    allw = [w[2] for k_ in want for w in want[k_]]
    allg = [g[2] for k_ in got for g in got[k_]]
    scale = (max(allg) / max(allw)) if allw and allg and max(allw) > 0 else 1.0
    for key in ("r", "b"):
        ctx.count("series_compared")
        ctx.count("points_compared", len(want[key]))
        g_ = sorted(got[key])
        w_ = sorted((x, y, a * scale) for x, y, a in want[key])
        if len(g_) != len(w_) or any(not all(vutil.num_equal(p_, q_, 1e-5, 1e-6) for p_, q_ in zip(a, b)) for a, b in zip(g_, w_)):
            ctx.violation("mapimpact|markers", "%s markers (lon, lat, area) drawn %s; the per-station MAE differences give %s"
                          % ("red" if key == "r" else "blue", g_[:5], w_[:5]), case)
    c.done(ctx, "mapimpact", argv, kind, 2, len(set(allg)))


def d_rank(ctx, rng, ds, paths, kind):
    c = _c16()
    axis = rng.choice(["leadtime", "time", "location"])
    # (false alarm ratio above a high threshold: undefined for an input that never forecasts the event in a slice, defined
    #  for the other - such a slice is left out of the ranking)
    thr = rng.choice([9.0, 11.0, 12.5])
    use_far = rng.random() < 0.6
    if use_far:
        # make sure of such a slice: at the first common lead time input 1 never forecasts the event, input 0 does
        import copy
        import tempfile
        ds = copy.deepcopy(ds)
        axis = "leadtime"
        l0 = gen.fnum(refmodel.common_dims(ds)[1][0])
        for k_, c_ in ds["inputs"][1]["cells"].items():
            if k_.split("|")[1] == l0 and c_.get("fcst") is not None:
                c_["fcst"] = 0.0
        hit = [c_ for k_, c_ in ds["inputs"][0]["cells"].items() if k_.split("|")[1] == l0 and c_.get("fcst") is not None
               and c_.get("obs") is not None]
        if hit:
            hit[0]["fcst"] = 14.0
        d2 = tempfile.mkdtemp(prefix="rank", dir=ctx.workdir)
        paths, _ = gen.materialize(ds, d2, None)
    argv = (["-m", "far", "-r", gen.fnum(thr)] if use_far else ["-m", "mae"]) + ["-type", "rank", "-x", axis]
    fig, case = c.run(ctx, paths, argv, ds)
    if fig is None:
        return
    F = 2
    cols = []
    for k in range(F):
        sl = refmodel.slices(ds, k, [("obs",), ("fcst",)], axis)
        if use_far:
            col = []
            for lab, cs in sl:
                a_ = sum(1 for x in cs if x[1] > thr and x[0] > thr)
                b_ = sum(1 for x in cs if x[1] > thr and not x[0] > thr)
                col.append(b_ / float(a_ + b_) if (a_ + b_) > 0 else NAN)
            cols.append(col)
        else:
            cols.append([refmetrics.deterministic("mae", [x[0] for x in cs], [x[1] for x in cs]) for lab, cs in sl])
    rows = list(zip(*cols))
    valid = [r for r in rows if all(v == v for v in r)]
    allv = [v for r in rows for v in r if v == v]
    std = refmetrics.pstd(allv) if allv else NAN
    # share[i][pos]: input i at sorted position pos; ties (difference below std/50) -> "None"
    share = [[0.0] * F for _ in range(F + 1)]
    for r in valid:
        if abs(r[0] - r[1]) < std / 50:
            for pos in range(F):
                share[F][pos] += 1
            continue
        order = sorted(range(F), key=lambda i: r[i])
        for pos, i in enumerate(order):
            share[i][pos] += 1
    n = float(len(valid)) if valid else 1.0      # no slice valid for every input: empty bars
    bars = [p for p in fig.axes[0].patches]
    if len(bars) != (F + 1) * F:
        ctx.violation("rank|bars", "%d bars, expected %d" % (len(bars), (F + 1) * F), case)
        return
    for i in range(F + 1):
        got = [float(b.get_height()) for b in bars[i * F:(i + 1) * F]]
        want = [x / n for x in share[i]]
        c.compare_series(ctx, "rank", "share of slices per rank for %s (-x %s)" % ("input %d" % i if i < F else "ties", axis), got, want, case)
    c.done(ctx, "rank", argv, kind, F, 2)


def d_impact(ctx, rng, ds, paths, kind):
    c = _c16()
    edges = [0.0, 3.0, 6.0, 9.0, 12.0, 15.0]
    argv = ["-m", "mae", "-type", "impact", "-r", ",".join(gen.fnum(e) for e in edges), "-simple"]
    fig, case = c.run(ctx, paths, argv, ds)
    if fig is None:
        return
    import numpy as np
    a0 = _cube(ds, 0, [("obs",), ("fcst",)])
    a1 = _cube(ds, 1, [("obs",), ("fcst",)])
    items = [(a0[k][1], a1[k][1], a0[k][0]) for k in a0 if k in a1]
    centres = [(edges[i] + edges[i + 1]) / 2 for i in range(len(edges) - 1)]
    w = (edges[1] - edges[0]) / 2
    contrib = {}
    for cx in centres:
        for cy in centres:
            sel = [(x, y, o) for x, y, o in items if cx - w < x <= cx + w and cy - w < y <= cy + w]
            if sel:
                contrib[(cx, cy)] = math.fsum(abs(x - o) ** 2 - abs(y - o) ** 2 for x, y, o in sel)
    mx = max([abs(v) for v in contrib.values()] or [0.0])
    cols = [cc for cc in fig.axes[0].collections]
    got = {}
    for cc in cols:
        off = np.asarray(cc.get_offsets(), float)
        sizes = np.asarray(cc.get_sizes(), float)
        fc = cc.get_facecolor()
        sign = 1 if (len(fc) and fc[0][0] > fc[0][2]) else -1    # red = input 0 worse (positive), blue = negative
        for i in range(len(off)):
            got[(float(off[i, 0]), float(off[i, 1]))] = sign * float(sizes[i] if len(sizes) > 1 else sizes[0])
    want = {k: v * 400.0 / mx for k, v in contrib.items() if v != 0} if mx > 0 else {}
    ctx.count("series_compared")
    ctx.count("points_compared", len(want))
    bad = sorted(set(got) ^ set(want))
    if bad or any(not vutil.num_equal(got[k], want[k], 1e-6, 1e-6) for k in want):
        ctx.violation("impact|circles", "impact circles (centre -> signed area) drawn %s, defining %s" % (sorted(got.items())[:6], sorted(want.items())[:6]), case)
    c.done(ctx, "impact", argv, kind, 2, len(set(got.values())))


def d_fss(ctx, rng, ds, paths, kind):
    c = _c16()
    t = c._thresholds(rng, ds, 3)[1]
    b = rng.choice(["above", "below="])
    argv = ["-m", "fss", "-r", gen.fnum(t), "-b", b, "-x", "leadtime"]
    fig, case = c.run(ctx, paths, argv, ds)
    if fig is None:
        return
    F = len(ds["inputs"])
    times, leads, locs = refmodel.common_dims(ds)
    scales = sorted(set(abs(a - b_) for a in leads for b_ in leads))
    distinct = 0
    for k in range(F):
        ls = fig.lines(0, ds["inputs"][k]["name"])
        if len(ls) != 1:
            ctx.violation("fss|series-missing", "no line for input %d" % k, case)
            continue
        gx, gy = fig.xy(ls[0])
        cube = _cube(ds, k, [("obs",), ("fcst",)])
        want = []
        for sc in scales:
            if sc == 0:
                want.append(NAN)
                continue
            fo, ff = [], []
            for i, li in enumerate(leads):
                for j, lj in enumerate(leads):
                    if lj - li == sc:
                        for tt in times:
                            for s in locs:
                                eo, ef = [], []
                                for l in leads[i:j + 1]:
                                    v = cube.get((tt, l, s[0]))
                                    if v is not None:
                                        eo.append(1.0 if attach.in_documented_event(v[0], b, t) else 0.0)
                                        ef.append(1.0 if attach.in_documented_event(v[1], b, t) else 0.0)
                                fo.append(refmetrics.mean(eo) if eo else NAN)
                                ff.append(refmetrics.mean(ef) if ef else NAN)
            pr = [(a, b_) for a, b_ in zip(fo, ff) if a == a and b_ == b_]
            if not pr:
                want.append(NAN)
                continue
            bs = refmetrics.mean([(a - b_) ** 2 for a, b_ in pr])
            mo = refmetrics.mean([a for a in fo if a == a])
            unc = mo * (1 - mo)
            want.append((unc - bs) / unc if unc > 0 else NAN)
        c.compare_series(ctx, "fss", "fractions skill score per temporal scale, input %d (bin %s)" % (k, b), gy, want, case, 1e-4, 1e-5)
        c.compare_series(ctx, "fss", "x temporal scales", gx, scales, case)
        distinct = max(distinct, len(set(round(y, 5) for y in gy if y == y)))
    c.done(ctx, "fss", argv, kind, F, distinct)


DIAGRAMS = {"marginal": d_marginal, "invreliability": d_invreliability, "invreliability-auto": d_invreliability_auto, "droc": d_droc, "droc0": d_droc0, "spreadskill": d_spreadskill,
            "murphy": d_murphy, "economicvalue": d_economicvalue, "bsdecomp": d_bsdecomp, "igncontrib": d_igncontrib,
            "autocorr": d_autocorr, "autocov": d_autocov, "auto-shared": d_auto_shared, "timeseries": d_timeseries, "meteo": d_meteo, "against": d_against,
            "change": d_change, "map": d_map, "mapimpact": d_mapimpact, "rank": d_rank, "impact": d_impact, "fss": d_fss}


def _agg_pairs(ds, k, axis, agg="mean"):
    sl = refmodel.slices(ds, k, [("obs",), ("fcst",)], axis)
    xs = [refmetrics.aggregate(agg, [c[0] for c in cs]) if cs else NAN for lab, cs in sl]
    ys = [refmetrics.aggregate(agg, [c[1] for c in cs]) if cs else NAN for lab, cs in sl]
    return xs, ys, sl


def _nansorted(v):
    return sorted([x for x in v if x == x]) + [x for x in v if x != x]


def d_qq_x(ctx, rng, ds, paths, kind):
    """qq with -x: one point per slice = aggregated obs / fcst, each sorted"""
    c = _c16()
    axis = rng.choice(["leadtime", "time", "location", "month"])
    agg = rng.choice([None, "median", "max"])
    argv = ["-m", "qq", "-x", axis] + (["-agg", agg] if agg else [])
    fig, case = c.run(ctx, paths, argv, ds)
    if fig is None:
        return
    F = len(ds["inputs"])
    distinct = 0
    for k in range(F):
        ls = fig.lines(0, ds["inputs"][k]["name"])
        if len(ls) != 1:
            ctx.violation("qq|series-missing", "no line for input %d" % k, case)
            continue
        gx, gy = fig.xy(ls[0])
        xs, ys, sl = _agg_pairs(ds, k, axis, agg or "mean")
        c.compare_series(ctx, "qq", "x sorted per-slice %s of obs (-x %s) input %d" % (agg or "mean", axis, k), gx, _nansorted(xs), case)
        c.compare_series(ctx, "qq", "y sorted per-slice %s of fcst (-x %s) input %d" % (agg or "mean", axis, k), gy, _nansorted(ys), case)
        distinct = max(distinct, len(set(y for y in gy if y == y)))
    c.done(ctx, "qq-x", argv, kind, F, distinct)


def d_qq_q(ctx, rng, ds, paths, kind):
    """qq with -q: one dashed curve per (input, quantile) = sorted (per-slice aggregated) quantile forecasts against the
    sorted observations, over the cases where obs, fcst and every requested quantile are present"""
    c = _c16()
    qs = sorted(rng.sample(ds["inputs"][0]["quantiles"], rng.choice([1, 2, 3])))
    axis = rng.choice(["no", "leadtime", "time", "location"])
    agg = rng.choice([None, None, "median", "max"]) if axis != "no" else None
    argv = ["-m", "qq", "-q", ",".join(gen.fnum(q) for q in qs)] + (["-x", axis] if axis != "no" else []) + (["-agg", agg] if agg else [])
    fig, case = c.run(ctx, paths, argv, ds)
    if fig is None:
        return
    F = len(ds["inputs"])
    fields = [("obs",), ("fcst",)] + [("q", q) for q in qs]
    distinct = 0
    for k in range(F):
        name = ds["inputs"][k]["name"]
        sl = refmodel.slices(ds, k, fields, axis)
        if axis == "no":
            cols = [[cs_[j] for lab, cs in sl for cs_ in cs] for j in range(len(fields))]
        else:
            cols = [[refmetrics.aggregate(agg or "mean", [cs_[j] for cs_ in cs]) if cs else NAN for lab, cs in sl] for j in range(len(fields))]
        ld = fig.lines(0, name + " (deterministic)")
        if len(ld) != 1:
            ctx.violation("qq|series-missing", "no line labelled %r" % (name + " (deterministic)"), case)
            continue
        gx, gy = fig.xy(ld[0])
        c.compare_series(ctx, "qq", "x sorted obs (-q given, -x %s) input %d" % (axis, k), gx, _nansorted(cols[0]), case)
        c.compare_series(ctx, "qq", "y sorted fcst (-q given, -x %s) input %d" % (axis, k), gy, _nansorted(cols[1]), case)
        for j, q in enumerate(qs):
            label = "%s (%g%%)" % (name, q * 100)
            lq = fig.lines(0, label)
            if len(lq) != 1:
                ctx.violation("qq|series-missing", "no quantile curve labelled %r" % label, case)
                continue
            qx, qy = fig.xy(lq[0])
            c.compare_series(ctx, "qq", "quantile curve %g%% of input %d (-x %s): sorted quantile forecasts" % (q * 100, k, axis),
                             qy, _nansorted(cols[2 + j]), case)
            distinct = max(distinct, len(set(y for y in qy if y == y)))
    c.done(ctx, "qq-q", argv, kind, F, distinct)


def d_scatter_x(ctx, rng, ds, paths, kind):
    c = _c16()
    axis = rng.choice(["leadtime", "time", "location"])
    argv = ["-m", "scatter", "-x", axis, "-simple"]
    fig, case = c.run(ctx, paths, argv, ds)
    if fig is None:
        return
    F = len(ds["inputs"])
    distinct = 0
    for k in range(F):
        ls = fig.lines(0, ds["inputs"][k]["name"])
        if len(ls) != 1:
            ctx.violation("scatter|series-missing", "no series for input %d" % k, case)
            continue
        gx, gy = fig.xy(ls[0])
        xs, ys, sl = _agg_pairs(ds, k, axis)
        c.compare_series(ctx, "scatter", "x mean obs per slice (-x %s) input %d" % (axis, k), gx, xs, case)
        c.compare_series(ctx, "scatter", "y mean fcst per slice (-x %s) input %d" % (axis, k), gy, ys, case)
        distinct = max(distinct, len(set(y for y in gy if y == y)))
    c.done(ctx, "scatter-x", argv, kind, F, distinct)


def d_taylor_x(ctx, rng, ds, paths, kind):
    """taylor with -x: one marker per slice, normalised by the slice's obs standard deviation"""
    c = _c16()
    axis = rng.choice(["leadtime", "location", "time"])
    argv = ["-m", "taylor", "-x", axis]
    fig, case = c.run(ctx, paths, argv, ds)
    if fig is None:
        return
    F = len(ds["inputs"])
    distinct = 0
    for k in range(F):
        ls = fig.lines(0, ds["inputs"][k]["name"])
        if len(ls) != 1:
            ctx.violation("taylor|series-missing", "no markers for input %d" % k, case)
            continue
        gx, gy = fig.xy(ls[0])
        sl = refmodel.slices(ds, k, [("obs",), ("fcst",)], axis)
        if len(sl) < 2:
            continue
        wx, wy = [], []
        for lab, cs in sl:
            o = [x[0] for x in cs]
            f = [x[1] for x in cs]
            r = refmetrics.pearson(o, f) if len(cs) >= 2 else NAN
            so, sf = (refmetrics.pstd(o), refmetrics.pstd(f)) if cs else (NAN, NAN)
            if cs and so > 0 and r == r:
                wx.append(sf / so * r)
                wy.append(sf / so * math.sqrt(max(0.0, 1 - r * r)))
            else:
                wx.append(NAN)
                wy.append(NAN)
        ok_idx = [i for i, v in enumerate(wx) if v == v]
        # undefined slices (no data, constant series) are not compared: NaN, inf or 0 may be drawn there
        c.compare_series(ctx, "taylor", "x normalised std * corr per slice (-x %s) input %d" % (axis, k), [gx[i] for i in ok_idx if i < len(gx)],
                         [wx[i] for i in ok_idx], case, 1e-5, 1e-6)
        c.compare_series(ctx, "taylor", "y normalised std * sqrt(1-corr^2) per slice input %d" % k, [gy[i] for i in ok_idx if i < len(gy)],
                         [wy[i] for i in ok_idx], case, 1e-4, 1e-5)
        distinct = max(distinct, len(ok_idx))
    c.done(ctx, "taylor-x", argv, kind, F, distinct)


def d_performance_x(ctx, rng, ds, paths, kind):
    c = _c16()
    axis = rng.choice(["leadtime", "location"])
    t = c._thresholds(rng, ds, 3)[1]
    b = rng.choice(["above", "below="])
    argv = ["-m", "performance", "-r", gen.fnum(t), "-b", b, "-x", axis, "-simple"]
    fig, case = c.run(ctx, paths, argv, ds)
    if fig is None:
        return
    F = len(ds["inputs"])
    distinct = 0
    for k in range(F):
        ls = fig.lines(0, ds["inputs"][k]["name"])
        if len(ls) != 1:
            ctx.violation("performance|series-missing", "no markers for input %d" % k, case)
            continue
        gx, gy = fig.xy(ls[0])
        sl = refmodel.slices(ds, k, [("obs",), ("fcst",)], axis)
        wx, wy = [], []
        for lab, cs in sl:
            tab = c._table([tuple(x) for x in cs], b, t)
            far = refmetrics.categorical("far", *tab)
            wx.append(1 - far if far == far else NAN)
            wy.append(refmetrics.categorical("hit", *tab))
        c.compare_series(ctx, "performance", "success ratio per slice (-x %s) input %d" % (axis, k), gx, wx, case)
        c.compare_series(ctx, "performance", "POD per slice (-x %s) input %d" % (axis, k), gy, wy, case)
        distinct = max(distinct, len(set(y for y in gy if y == y)))
    c.done(ctx, "performance-x", argv, kind, F, distinct)


ENS = set(["timeseries-ens"])
DIAGRAMS.update({"timeseries-ens": d_timeseries_ens, "qq-q": d_qq_q, "qq-x": d_qq_x, "scatter-x": d_scatter_x, "taylor-x": d_taylor_x, "performance-x": d_performance_x})
