"""C10 NetCDF input is read faithfully and agrees with the text format."""
import os
import random
import shutil
import subprocess

from vmon import common, gen, runner, vutil

RULE = ("one dataset dictionary is written both as a text file and as a NetCDF file in the documented layout (optional "
        "variables altitude/location/lat/lon/threshold+cdf/quantile+x/ensemble/pit/other present or absent, missing values "
        "as _FillValue, masked, -999, NaN and 1e36, dimension entries stored in shuffled order, time as i4 or f8); "
        "verif.input.get_input on both must give the same dimensions, location metadata, every field cell by "
        "coordinate, thresholds/quantiles by value and variable metadata (units modulo the $..$ wrapping), and every "
        "score via Metric.compute / csv must be identical (numbers are float32-representable); the NetCDF reader is also "
        "compared with the dictionary itself. text2nc (subprocess) output is read back with netCDF4 and compared at "
        "float32 precision; file type detection is probed with NetCDF bytes named .txt and text named .nc. signature = "
        "(variable-presence set, missing encodings, shuffled?); non-trivial = >= 1 optional variable and >= 1 missing "
        "encoding present.")
RULE += " " + 'lat and lon are present independently (only one of them in 15 % of the files).'
RULE += " " + 'Thresholds inexact in float32; all five NetCDF on-disk formats; text2nc output and its read-back matched by location id over every field.'
RULE += " " + 'Rounds 9-10: files without a forecast column; unwritten time slots; legitimate values below -999 in text and NetCDF copies of the same data.'
RULE += " " + 'Rounds 13-14: threshold / quantile coordinates stored in non-ascending order (cdf / x columns in the same order).'
ASSUMPTIONS = ["metadata that neither file carries (e.g. no altitude anywhere) is not compared: the two readers' defaults "
               "for absent metadata are not part of the property",
               "location ids fit in int32 (text2nc stores them so)"]
REQUIRED_COUNTERS = ["pairs_read", "cells_compared", "scores_compared", "text2nc_runs", "text2nc_cells", "detection_checks"]
ANCHOR_FUNCS = ["Netcdf.__init__", "util.clean", "input.get_input"]
TIMEOUT = {"quick": 1500, "thorough": 7200}

NAN = float("nan")


def plan(tier, seed):
    n = 16 if tier == "quick" else 300
    shards = [{"part": "pair", "seed": seed, "k": k, "n": n} for k in range(12)]
    shards += [{"part": "text2nc", "seed": seed, "k": k, "n": 4 if tier == "quick" else 70} for k in range(4)]
    return shards


def gen_inp(rng, allow_ens=True):
    prob = rng.random() < 0.5
    members = rng.randint(1, 4) if (allow_ens and rng.random() < 0.4) else 0
    others = rng.sample(["spread", "tmin"], rng.randint(1, 2)) if rng.random() < 0.3 else []
    has = ["obs", "fcst"] + (["pit"] if rng.random() < 0.4 else [])
    r_ = rng.random()
    if r_ < 0.1:
        has.remove("obs")
    elif r_ < 0.25 and (prob or members):
        has.remove("fcst")          # a purely probabilistic / ensemble file: observations but no deterministic forecast
    nt, nl, ns = rng.randint(1, 5), rng.randint(1, 5), rng.randint(1, 4)
    times = gen.pick_times(rng, nt)
    leads = sorted(rng.sample([0, 1, 1.5, 3, 6, 12, 24, 36, 48, 240], nl))
    locs = rng.sample(gen.LOC_POOL, ns)
    var = {"name": rng.choice(["Temperature", "Precip"]), "units": rng.choice(["C", "mm", "%"]),
           "x0": rng.choice([None, 0.0]), "x1": rng.choice([None, 100.0])}
    inp = gen.make_input(rng, "d", "nc", times, leads, locs, has=has,
                         # 10.1, 25.4, 273.15 are not exact in the float32 threshold coordinate of a NetCDF file
                         thresholds=sorted(rng.sample([-5.0, 0.0, 0.5, 5.0, 10.0, 10.1, 25.4, 273.15], rng.randint(1, 3))) if prob else [],
                         quantiles=sorted(rng.sample([0.0, 0.1, 0.5, 0.9, 1.0], rng.randint(1, 3))) if prob else [],
                         members=members, others=others, miss=rng.choice([0.0, 0.1, 0.3]), variable=var)
    if rng.random() < 0.25:
        # genuine values below the -999 marker (an accumulated flux, a depth): data in both formats, not missing
        for c in inp["cells"].values():
            for f_ in ("obs", "fcst"):
                if c.get(f_) is not None and rng.random() < 0.2:
                    c[f_] = rng.choice([-1000.0, -1500.25, -2048.0, -999.5])
    return inp


def nc_style(rng, inp):
    order = {"time": list(range(len(inp["times"]))), "leadtime": list(range(len(inp["leadtimes"]))),
             "location": list(range(len(inp["locs"])))}
    shuffled = rng.random() < 0.6
    if shuffled:
        for k in order:
            rng.shuffle(order[k])
    vars_ = {"location": rng.random() < 0.8, "lat": True, "lon": True, "altitude": rng.random() < 0.7}
    r = rng.random()
    if r < 0.15:
        vars_["lat"] = vars_["lon"] = False
    elif r < 0.3:
        # only one of the two coordinates is stored (the other then defaults to 0 in both formats)
        vars_[rng.choice(["lat", "lon"])] = False
        vars_["location"] = True
    fits = max(inp["times"]) < 2 ** 31 - 1
    # every on-disk flavour of NetCDF the library writes (HDF5-based, classic, 64-bit offset, CDF-5)
    fmt_ = rng.choice(["NETCDF4", "NETCDF4", "NETCDF4_CLASSIC", "NETCDF3_CLASSIC", "NETCDF3_64BIT_OFFSET", "NETCDF3_64BIT_DATA"])
    unset = rng.randint(0, len(inp["times"])) if rng.random() < 0.15 else None
    # the threshold / quantile coordinates need not be stored ascending (cdf / x columns stored in the same order)
    r2 = random.Random("tq|%s|%s|%s|%s" % (order, inp["thresholds"], inp["quantiles"], len(inp["cells"])))
    for k, n in (("threshold", len(inp["thresholds"])), ("quantile", len(inp["quantiles"]))):
        order[k] = list(range(n))
        if n > 1 and r2.random() < 0.6:
            while order[k] == list(range(n)):
                r2.shuffle(order[k])
    return {"format": fmt_, "unset_time_slot": unset, "enc": rng.sample(gen.NC_MISSING_ENC, rng.randint(1, 4)), "order": order, "vars": vars_,
            "time_type": "i4" if (fits and rng.random() < 0.5) else "f8", "shuffled": shuffled}


def loc_key(st_vars, loc):
    return loc[0]


def index_maps(inpobj, inp, by_id=True):
    """index of each dictionary coordinate in the reader's arrays"""
    ti = {float(t): i for i, t in enumerate(inpobj.times)}
    li = {float(l): i for i, l in enumerate(inpobj.leadtimes)}
    si = {}
    for j, v in enumerate(inpobj.locations):
        si[j] = v
    return ti, li


def compare_readers(ctx, a, b, inp, st_nc, case):
    """a = text reader, b = netcdf reader; compare by coordinates."""
    import numpy as np
    # (an unwritten slot of the NetCDF time dimension reads as a missing time: no case belongs to it)
    if sorted(float(x) for x in a.times) != sorted(float(x) for x in b.times if float(x) == float(x)):
        ctx.violation("dims-differ|time", "text times %s, NetCDF times %s" % (list(a.times), list(b.times)), case)
        return False
    if sorted(float(x) for x in a.leadtimes) != sorted(float(x) for x in b.leadtimes):
        ctx.violation("dims-differ|leadtime", "text %s, NetCDF %s" % (list(a.leadtimes), list(b.leadtimes)), case)
        return False
    if len(a.locations) != len(b.locations):
        ctx.violation("dims-differ|location", "text %d locations, NetCDF %d" % (len(a.locations), len(b.locations)), case)
        return False
    sv = st_nc["vars"]
    # match locations by id when the NetCDF file stores ids, else by lat/lon
    amap, bmap = {}, {}
    for loc in inp["locs"]:
        for j, v in enumerate(a.locations):
            if float(v.id) == float(loc[0]):
                amap[loc[0]] = j
        for j, v in enumerate(b.locations):
            if sv["location"]:
                if float(v.id) == float(loc[0]):
                    bmap[loc[0]] = j
            elif sv["lat"] and sv["lon"]:
                if abs(v.lat - loc[1]) < 1e-6 and abs(v.lon - loc[2]) < 1e-6:
                    bmap[loc[0]] = j
            else:
                # no id, no lat/lon: positional ids 0..n-1 in stored order
                pos = [inp["locs"][i][0] for i in st_nc["order"]["location"]]
                bmap[loc[0]] = pos.index(loc[0])
        if loc[0] not in amap or loc[0] not in bmap:
            ctx.violation("location-not-found", "location %s not found (text: %s, NetCDF: %s)" % (
                loc, [(v.id, v.lat, v.lon) for v in a.locations], [(v.id, v.lat, v.lon) for v in b.locations]), case)
            return False
        va, vb = a.locations[amap[loc[0]]], b.locations[bmap[loc[0]]]
        want_lat = loc[1] if sv["lat"] else 0.0
        want_lon = loc[2] if sv["lon"] else 0.0
        ctx.count("location_metadata_checks")
        if abs(va.lat - vb.lat) > 1e-6 or abs(va.lon - vb.lon) > 1e-6 or abs(vb.lat - want_lat) > 1e-6 or abs(vb.lon - want_lon) > 1e-6:
            ctx.violation("location-metadata|latlon", "location %s (stored: lat %s, lon %s): text (%s,%s) NetCDF (%s,%s)"
                          % (loc, sv["lat"], sv["lon"], va.lat, va.lon, vb.lat, vb.lon), case)
        if sv["altitude"] and (abs(va.elev - vb.elev) > 1e-4 or abs(vb.elev - loc[3]) > 1e-4):
            ctx.violation("location-metadata|elev", "location %s: text elev %s NetCDF elev %s" % (loc, va.elev, vb.elev), case)
    def same(u, v):
        return len(u) == len(v) and all(abs(x - y) <= 1e-6 * max(1.0, abs(y)) for x, y in zip(sorted(u), sorted(v)))
    # (the NetCDF threshold coordinate is single precision)
    if not same([float(x) for x in a.thresholds], [float(x) for x in b.thresholds]) or \
            not same([float(x) for x in b.thresholds], inp["thresholds"]):
        ctx.violation("thresholds-differ", "text %s NetCDF %s" % (sorted(a.thresholds), sorted(b.thresholds)), case)
        return False
    if not same([float(x) for x in a.quantiles], [float(x) for x in b.quantiles]) or \
            not same([float(x) for x in b.quantiles], inp["quantiles"]):
        ctx.violation("quantiles-differ", "text %s NetCDF %s" % (sorted(a.quantiles), sorted(b.quantiles)), case)
        return False
    if a.num_members != b.num_members:
        ctx.violation("members-differ", "text %d NetCDF %d" % (a.num_members, b.num_members), case)
        return False
    va, vb = a.variable, b.variable
    ua, ub = va.units, vb.units.replace("$", "")
    if va.name != vb.name or ua != ub or va.x0 != vb.x0 or va.x1 != vb.x1:
        ctx.violation("variable-metadata-differ", "text (%r,%r,%r,%r) NetCDF (%r,%r,%r,%r)" % (va.name, va.units, va.x0, va.x1,
                                                                                              vb.name, vb.units, vb.x0, vb.x1), case)
    ati = {float(t): i for i, t in enumerate(a.times)}
    bti = {float(t): i for i, t in enumerate(b.times)}
    ali = {float(t): i for i, t in enumerate(a.leadtimes)}
    bli = {float(t): i for i, t in enumerate(b.leadtimes)}
    athr = {th: min(range(len(a.thresholds)), key=lambda i: abs(float(a.thresholds[i]) - th)) for th in inp["thresholds"]}
    bthr = {th: min(range(len(b.thresholds)), key=lambda i: abs(float(b.thresholds[i]) - th)) for th in inp["thresholds"]}
    aq = {q: min(range(len(a.quantiles)), key=lambda i: abs(float(a.quantiles[i]) - q)) for q in inp["quantiles"]}
    bq = {q: min(range(len(b.quantiles)), key=lambda i: abs(float(b.quantiles[i]) - q)) for q in inp["quantiles"]}
    arrays = []
    for f in ("obs", "fcst", "pit"):
        xa, xb = getattr(a, f), getattr(b, f)
        some = any(c.get(f) is not None for c in inp["cells"].values())
        if (xa is None) != (xb is None) and some:
            ctx.violation("field-presence-differs|%s" % f, "text has %s: %s, NetCDF has it: %s" % (f, xa is not None, xb is not None), case)
            return False
        if xa is not None and xb is not None:
            arrays.append((f, xa, xb, None, None, lambda c, f=f: c.get(f)))
    ta, tb = a.threshold_scores, b.threshold_scores
    for j, th in enumerate(inp["thresholds"]):
        arrays.append(("cdf@%s" % th, ta, tb, athr[th], bthr[th], lambda c, j=j: None if c.get("p") is None else c["p"][j]))
    qa, qb = a.quantile_scores, b.quantile_scores
    for j, q in enumerate(inp["quantiles"]):
        arrays.append(("x@%s" % q, qa, qb, aq[q], bq[q], lambda c, j=j: None if c.get("q") is None else c["q"][j]))
    if inp["members"]:
        ea, eb = a.ensemble, b.ensemble
        for m in range(inp["members"]):
            arrays.append(("member%d" % m, ea, eb, m, m, lambda c, m=m: None if c.get("e") is None else c["e"][m]))
    for o in inp["others"]:
        arrays.append((o, a.other_score(o), b.other_score(o), None, None, lambda c, o=o: (c.get("o") or {}).get(o)))
    for t in inp["times"]:
        for l in inp["leadtimes"]:
            for loc in inp["locs"]:
                cell = inp["cells"].get(gen.ck(t, l, loc[0])) or {}
                for name, xa, xb, ia, ib, getter in arrays:
                    ga = xa[ati[float(t)], ali[float(l)], amap[loc[0]]] if ia is None else xa[ati[float(t)], ali[float(l)], amap[loc[0]], ia]
                    gb = xb[bti[float(t)], bli[float(l)], bmap[loc[0]]] if ib is None else xb[bti[float(t)], bli[float(l)], bmap[loc[0]], ib]
                    want = getter(cell)
                    ctx.count("cells_compared")
                    if not vutil.num_equal(float(gb), NAN if want is None else want, 0, 1e-12):
                        ctx.violation("netcdf-cell|%s" % ("missing-encoding" if want is None else "value"),
                                      "NetCDF %s at (%s,%s,%s): read %r, file stores %r" % (name, t, l, loc[0], float(gb), want), case)
                        return False
                    if not vutil.num_equal(float(ga), float(gb), 0, 1e-12):
                        ctx.violation("readers-disagree|%s" % name.split("@")[0], "%s at (%s,%s,%s): text %r, NetCDF %r"
                                      % (name, t, l, loc[0], float(ga), float(gb)), case)
                        return False
    return True


def run_pair(desc, ctx):
    import numpy as np
    import verif.input
    import verif.metric
    import verif.util
    rng = random.Random("C10-%s-%s" % (desc["seed"], desc["k"]))
    for ci in range(desc["n"]):
        inp = gen_inp(rng)
        st = nc_style(rng, inp)
        d = os.path.join(ctx.workdir, "p%d" % ci)
        os.makedirs(d, exist_ok=True)
        tinp = dict(inp, fmt="text", name="d.txt", style={})
        tstyle = gen.default_text_style(tinp, rng)
        tstyle["has_elev"] = st["vars"]["altitude"]
        tstyle["latlon"] = True if (st["vars"]["lat"] and st["vars"]["lon"]) else "lat" if st["vars"]["lat"] else \
            "lon" if st["vars"]["lon"] else False
        tinp["style"] = tstyle
        ninp = dict(inp, fmt="nc", name="d.nc", style=dict(st))
        tpath = gen.write_text(tinp, os.path.join(d, "d.txt"), rng)
        npath = gen.write_nc(ninp, os.path.join(d, "d.nc"), rng)
        case = {"inp": inp, "nc_style": st}
        if any(st["order"].get(k) not in (None, sorted(st["order"].get(k) or [])) for k in ("threshold", "quantile")):
            ctx.count("files_with_unsorted_threshold_or_quantile_coordinate")
        opt = sorted(k for k, v in st["vars"].items() if v) + (["cdf"] if inp["thresholds"] else []) + \
            (["x"] if inp["quantiles"] else []) + (["ensemble"] if inp["members"] else []) + \
            (["pit"] if "pit" in inp["has"] else []) + list(inp["others"])
        anymiss = any(v is None for c in inp["cells"].values() for v in (c.get("obs"), c.get("fcst")))
        ctx.case("%s|%s|%s|%s" % ("+".join(opt), "+".join(sorted(st["enc"])), st["shuffled"], st["time_type"]),
                 len(opt) > 3 and anymiss, {"variables": opt, "missing_encodings": st["enc"], "shuffled": st["shuffled"],
                                            "dims": [len(inp["times"]), len(inp["leadtimes"]), len(inp["locs"])]})
        try:
            a = verif.input.get_input(tpath)
            b = verif.input.get_input(npath)
        except SystemExit:
            ctx.violation("well-formed-file-rejected", "get_input exited on a well-formed file", case)
            continue
        except Exception as e:
            ctx.violation("reader-exception|%s" % type(e).__name__, "get_input raised %r" % e, case)
            continue
        ctx.count("pairs_read")
        if not isinstance(a, verif.input.Text) or not isinstance(b, verif.input.Netcdf):
            ctx.violation("type-detection", "text -> %s, NetCDF -> %s" % (type(a).__name__, type(b).__name__), case)
            continue
        if not compare_readers(ctx, a, b, inp, st, case):
            continue
        # scores agree exactly
        if "obs" not in inp["has"]:
            continue
        metrics = ["mae", "rmse", "corr", "bias"] if "fcst" in inp["has"] else ["obs", "obs"]
        axes = ["leadtime", "time", "no"] + (["location"] if st["vars"]["location"] else [])
        argvs = [["-m", m, "-x", rng.choice(axes)] for m in rng.sample(metrics, 2)]
        vals = sorted(set(v for c in inp["cells"].values() for v in (c.get("obs"), c.get("fcst")) if v is not None))
        if vals and "fcst" in inp["has"]:
            argvs.append(["-m", "ets", "-r", gen.fnum(rng.choice(vals)), "-b", rng.choice(["above", "below=", "above="])])
        if inp["thresholds"]:
            argvs.append(["-m", rng.choice(["bs", "bss", "bsrel", "ign0"]), "-r", gen.fnum(rng.choice(inp["thresholds"])), "-x", "leadtime"])
        if inp["quantiles"]:
            argvs.append(["-m", "quantilescore", "-q", gen.fnum(rng.choice(inp["quantiles"])), "-x", "leadtime"])
        if "pit" in inp["has"] and inp["variable"]["x0"] is None and inp["variable"]["x1"] is None:
            # (with a discrete mass the PIT values are randomised: not repeatable, reported by C18)
            argvs.append(["-m", "pit", "-x", "time"])
        if inp["members"]:
            argvs.append(["-m", "bs", "-r", "7.3", "-x", "no"])
        for o in inp["others"]:
            argvs.append(["-m", o, "-x", "leadtime"])
        for av in argvs:
            oa = runner.run_cli([tpath] + av + ["-type", "csv"])
            ob = runner.run_cli([npath] + av + ["-type", "csv"])
            ctx.count("scores_compared")
            if oa.status != ob.status:
                ctx.violation("scores-differ|outcome", "verif d.txt %s -> %s ; d.nc -> %s" % (" ".join(av), oa.brief(), ob.brief()), case)
                continue
            if oa.status != "ok":
                continue
            ha, ra = runner.parse_csv(oa.stdout)
            hb, rb = runner.parse_csv(ob.stdout)
            # location-like descriptors may differ where metadata is absent from both files; compare the score column
            ca = [r[-1] for r in ra]
            cb = [r[-1] for r in rb]
            da = [r[:-1] for r in ra]
            db = [r[:-1] for r in rb]
            same_desc = True
            if "location" not in av:
                same_desc = da == db
            def close6(x, y):
                # a different summation order (shuffled dimension entries) may flip the last printed digit at a tie
                if x == y:
                    return True
                try:
                    fx, fy = float(x), float(y)
                except ValueError:
                    return False
                if fx != fx or fy != fy:
                    return fx != fx and fy != fy
                return abs(fx - fy) <= 1.5e-5 * max(abs(fx), abs(fy))
            if len(ca) != len(cb) or not all(close6(x, y) for x, y in zip(ca, cb)) or not same_desc:
                ctx.violation("scores-differ|%s" % av[1], "verif <file> %s -type csv\ntext:\n%s\nNetCDF:\n%s"
                              % (" ".join(av), runner.strip_ansi(oa.stdout)[-400:], runner.strip_ansi(ob.stdout)[-400:]), case)
        # detection by content, not by name
        x_txt = os.path.join(d, "x.txt")
        y_nc = os.path.join(d, "y.nc")
        shutil.copy(npath, x_txt)
        shutil.copy(tpath, y_nc)
        ctx.count("detection_checks")
        try:
            i1 = verif.input.get_input(x_txt)
            i2 = verif.input.get_input(y_nc)
            if not isinstance(i1, verif.input.Netcdf) or not isinstance(i2, verif.input.Text):
                ctx.violation("type-detection-by-name", "NetCDF bytes named x.txt -> %s; text named y.nc -> %s"
                              % (type(i1).__name__, type(i2).__name__), case)
        except BaseException as e:
            ctx.violation("type-detection-by-name", "renamed files: %r" % e, case)


def run_text2nc(desc, ctx):
    import numpy as np
    import netCDF4
    import verif.input
    rng = random.Random("C10-t2n-%s-%s" % (desc["seed"], desc["k"]))
    script = os.path.join(common.REPO, "scripts", "text2nc.py")
    for ci in range(desc["n"]):
        inp = gen_inp(rng)
        inp["fmt"] = "text"
        inp["style"] = {}
        gen.prune_dims(inp)
        d = os.path.join(ctx.workdir, "t%d" % ci)
        os.makedirs(d, exist_ok=True)
        tpath = gen.write_text(inp, os.path.join(d, "in.txt"), rng)
        opath = os.path.join(d, "out.nc")
        case = {"inp": inp}
        r = subprocess.run([common.PY, script, tpath, opath], stdout=subprocess.PIPE, stderr=subprocess.PIPE, text=True,
                           env=common.worker_env(), timeout=300)
        ctx.count("text2nc_runs")
        ctx.case("text2nc|%s|%s" % ("prob" if inp["thresholds"] else "det", "ens" if inp["members"] else "noens"), True,
                 {"dims": [len(inp["times"]), len(inp["leadtimes"]), len(inp["locs"])], "members": inp["members"]})
        if r.returncode != 0 or not os.path.exists(opath):
            ctx.violation("text2nc-failed", "text2nc exited %d: %s" % (r.returncode, r.stderr[-600:]), case)
            continue
        a = verif.input.Text(tpath)
        f = netCDF4.Dataset(opath)
        try:
            def arr(name):
                v = f.variables[name][:]
                return np.ma.filled(np.ma.masked_invalid(v.astype(float)), np.nan)
            if list(arr("time")) != [float(x) for x in a.times] or not np.allclose(arr("leadtime"), np.array(a.leadtimes, float)):
                ctx.violation("text2nc-dims", "time/leadtime differ", case)
                continue
            ids = [float(x) for x in arr("location")]
            if sorted(ids) != sorted(float(l.id) for l in a.locations) or len(set(ids)) != len(ids):
                ctx.violation("text2nc-locations", "ids %s vs %s" % (ids, [l.id for l in a.locations]), case)
                continue
            # the output may list the locations in any order: every variable is matched by location id
            perm = [ids.index(float(l.id)) for l in a.locations]
            _arr0 = arr

            def arr(name, _arr0=_arr0):
                v = _arr0(name)
                dims = f.variables[name].dimensions
                if "location" in dims:
                    v = np.take(v, perm, axis=dims.index("location"))
                return v
            for name, attr in (("lat", "lat"), ("lon", "lon"), ("altitude", "elev")):
                if not np.allclose(arr(name), np.array([getattr(l, attr) for l in a.locations], float), atol=1e-4):
                    ctx.violation("text2nc-location-metadata|%s" % name, "%s differs" % name, case)
            pairs = []
            for name, src in (("obs", a.obs), ("fcst", a.fcst)):
                if src is not None:
                    pairs.append((name, src))
            if inp["thresholds"]:
                thr = [float(x) for x in arr("threshold")]
                if not np.allclose(thr, np.array(a.thresholds, float)):
                    ctx.violation("text2nc-thresholds", "%s vs %s" % (thr, list(a.thresholds)), case)
                pairs.append(("cdf", a.threshold_scores))
            if inp["quantiles"]:
                pairs.append(("x", a.quantile_scores))
            for o in inp["others"]:
                pairs.append((o, a.other_score(o)))
            if "pit" in inp["has"] and a.pit is not None:
                pairs.append(("pit", a.pit))
            for name, src in pairs:
                if name not in f.variables:
                    ctx.violation("text2nc-drops-field|%s" % name, "output has no variable %s" % name, case)
                    continue
                got = arr(name)
                got[(got > 1e30) | (got == -999)] = np.nan
                want = np.array(src, float)
                ctx.count("text2nc_cells", int(want.size))
                if got.shape != want.shape or not np.array_equal(np.isnan(got), np.isnan(want)) or \
                        not np.allclose(np.nan_to_num(got), np.nan_to_num(want.astype(np.float32).astype(float)), rtol=1e-6, atol=1e-6):
                    ctx.violation("text2nc-values|%s" % name, "variable %s differs from the text file beyond float32 rounding" % name, case)
            if inp["members"]:
                if "ensemble" not in f.variables:
                    ctx.violation("text2nc-drops-field|ensemble", "the text file has %d ensemble member columns; the NetCDF output has no "
                                  "ensemble variable" % inp["members"], case)
                else:
                    got = arr("ensemble")
                    want = np.array(a.ensemble, float)
                    ctx.count("text2nc_cells", int(want.size))
                    if got.shape != want.shape or not np.array_equal(np.isnan(got) | (got > 1e30), np.isnan(want)) or \
                            not np.allclose(np.nan_to_num(np.where(got > 1e30, np.nan, got)), np.nan_to_num(want), rtol=1e-6):
                        ctx.violation("text2nc-values|ensemble", "ensemble differs", case)
            vname = getattr(f, "standard_name", getattr(f, "long_name", None))
            if vname != a.variable.name:
                ctx.violation("text2nc-variable-name", "%r vs %r" % (vname, a.variable.name), case)
        finally:
            f.close()
        # and verif reads it back as the same dataset
        b = verif.input.get_input(opath)
        bid = [float(l.id) for l in b.locations]
        try:
            permb = [bid.index(float(l.id)) for l in a.locations]
        except ValueError:
            ctx.violation("text2nc-roundtrip|locations", "ids %s vs %s" % (bid, [l.id for l in a.locations]), case)
            continue
        fields = [("obs", a.obs, b.obs), ("fcst", a.fcst, b.fcst), ("pit", a.pit, b.pit)]
        if inp["thresholds"]:
            fields.append(("cdf", a.threshold_scores, b.threshold_scores))
        if inp["quantiles"]:
            fields.append(("x", a.quantile_scores, b.quantile_scores))
        if inp["members"]:
            fields.append(("ensemble", a.ensemble, b.ensemble))
        for o in inp["others"]:
            try:
                fields.append((o, a.other_score(o), b.other_score(o)))
            except Exception:
                pass
        for name, xa, xb in fields:
            if xa is None or xb is None:
                continue
            xa = np.array(xa, float)
            xb = np.take(np.array(xb, float), permb, axis=2)
            ctx.count("text2nc_cells", int(xa.size))
            if xa.shape != xb.shape or not np.array_equal(np.isnan(xa), np.isnan(xb)) or \
                    not np.allclose(np.nan_to_num(xa), np.nan_to_num(xb), rtol=1e-6, atol=1e-6):
                ctx.violation("text2nc-roundtrip|%s" % name, "reading the converted file back gives different %s values at the same "
                              "(time, lead time, location id)" % name, case)


def run_shard(desc, ctx):
    if desc["part"] == "pair":
        run_pair(desc, ctx)
    else:
        run_text2nc(desc, ctx)


def replay(case, ctx):
    run_pair({"seed": 0, "k": 0, "n": 5}, ctx)
    run_text2nc({"seed": 0, "k": 0, "n": 3}, ctx)
