"""C12 Text and CSV outputs report exactly the computed scores."""
import os
import random
import sys

from vmon import attach, gen, refcli, refmetrics, refmodel, runner, vutil

RULE = ("every valid metric class (and the obsfcst table) x a random axis (all 19 incl. threshold/obs/fcst) x {csv, text} x "
        "{stdout, -f file} x {-leg, -acc, -r/-b, -agg} on 1-3 generated inputs (probabilistic + ensemble so that every metric "
        "has its fields). The emitted table is parsed back: header = x-dimension column(s) + one column per input in "
        "command-line order (legend names if given); one row per slice in axis order; numbers must be the scores obtained "
        "through the API (Metric.compute on a fresh Data, assembled per documented rules: per event on threshold-like axes, "
        "mean over events otherwise, running sums with -acc) formatted %g / %.4g, and additionally equal the independent "
        "reference interpreter where it models the metric; descriptors = formatted date / lead time / id,lat,lon,elev / "
        "threshold. With -f the file must hold exactly what stdout would have shown and nothing else may be written "
        "(audit hook). signature = (metric, axis, type, -f?, -leg?, -acc?, #inputs); non-trivial = >= 2 rows and >= 2 "
        "columns, not all NaN.")
RULE += " " + "Duplicate -leg names and identical file names in different directories occur (each column must still carry its own file's scores)."
RULE += " " + 'obsfcst quantile columns; thresholds in the order given; shards rotate the process time zone.'
RULE += " " + "Round 10: rapid-update run series; the row count is compared with the partition computed from the inputs, not with verif's own axis size."
ASSUMPTIONS = ["a mismatch of one unit in the last printed digit is excused (decimal rounding at the formatting boundary)"]
REQUIRED_COUNTERS = ["tables", "values_compared", "descriptors_compared", "file_vs_stdout", "acc_tables", "refcli_tables", "audit_open_write"]
ROTATE_TZ = True       # dates, times of day and time labels are UTC whatever the time zone of the machine
ANCHOR_FUNCS = ["Output.csv", "Output.text", "Standard._get_x_y"]

NAN = float("nan")
_audit = {"on": False, "writes": [], "installed": False}


def _hook(event, args):
    if _audit["on"] and event == "open":
        try:
            path, mode = args[0], args[1]
            if isinstance(mode, str) and any(c in mode for c in "wax+") and isinstance(path, str):
                _audit["writes"].append(path)
        except Exception:
            pass


def plan(tier, seed):
    n = 12 if tier == "quick" else 150
    return [{"seed": seed, "k": k, "n": n} for k in range(16)]


def all_metric_names():
    import verif.metric
    return sorted(n.lower() for n, c in verif.metric.get_all() if c.is_valid())


def needs(name):
    """(threshold kind) for each metric: 'det' deterministic thresholds, 'thr' stored cdf thresholds, 'q1'/'q2' quantiles."""
    import verif.metric
    m = verif.metric.get(name)
    if m.require_threshold_type == "deterministic":
        return "det"
    if name == "within":
        return "det"
    if m.require_threshold_type in ("threshold", "thresholds"):
        return "thr"
    if m.require_threshold_type == "quantile":
        return "q2" if m.min_num_thresholds == 2 else "q1"
    return None


def parse_text(text):
    lines = [l for l in runner.strip_ansi(text).split("\n") if l.strip() and not l.startswith("Warning")]
    rows = [[c.strip() for c in l.split("|")][:-1] for l in lines]
    return rows[0], rows[1:]


def api_table(paths, argvopts, name, axis, thresholds, bin_type, agg, acc):
    """Scores through the API on a fresh dataset, assembled by the documented rules. -> list of rows of floats"""
    import numpy as np
    import verif.aggregator
    import verif.metric
    import verif.util
    data = vutil.build_data(paths)
    m = verif.metric.get(name)
    if agg:
        m.aggregator = verif.aggregator.get(agg)
    vax = vutil.vaxis(axis)
    b = bin_type or m.default_bin_type or "above"
    intervals = verif.util.get_intervals(b, None if thresholds is None else np.array(thresholds))
    F = data.num_inputs
    cols = []
    for f in range(F):
        if axis in ("threshold", "obs", "fcst"):
            col = [float(np.ma.filled(m.compute(data, f, vax, iv), np.nan)[0]) for iv in intervals]
        else:
            acc_ = None
            for iv in intervals:
                v = np.array(np.ma.filled(m.compute(data, f, vax, iv), np.nan), float)
                acc_ = v if acc_ is None else acc_ + v
            col = (acc_ / len(intervals)).tolist()
        cols.append(col)
    n = len(cols[0])
    if acc:
        for col in cols:
            run = 0.0
            for i in range(n):
                x = col[i]
                if x != x:
                    x = 0.0
                if x in (float("inf"), float("-inf")):
                    # an infinite score enters the running sum as the largest finite number (NumPy's nan_to_num)
                    x = sys.float_info.max if x > 0 else -sys.float_info.max
                run += x
                col[i] = run
    return [[cols[f][i] for f in range(F)] for i in range(n)]


def run_case(ctx, rng, ci, names):
    import numpy as np
    F = rng.choice([1, 2, 2, 3])
    precise = rng.random() < 0.4
    # rapid-update cycles: runs of the same day/week/month that differ in their minutes still form one slice
    subhourly = rng.random() < 0.3
    subtimes = None
    if subhourly:
        t0 = gen.pick_times(rng, 1)[0]
        step = rng.choice([900, 1800, 5400, 86400 + 1800, 2 * 86400 + 900])
        subtimes = [t0 + j * step for j in range(rng.randint(3, 5))]
    pool = gen.LOC_POOL
    if precise:
        # station ids and coordinates with more than six significant digits (text files keep them exactly)
        gen.LOC_POOL = [[1234567, 49.123456, -123.456789, 1034.5678], [1234568, 49.123457, -123.45679, 2.25], [20001234, 60.000001, 10.5, 100.0],
                        [7, 70.0, -20.0, 1200.5], [1234569, -33.987654, 151.123456, 12.0]]
    try:
        ds = gen.make_dataset(rng, n_inputs=F, prob=True, ens=False, pit=True, miss=rng.choice([0.0, 0.1]), sparse=0.0,
                              thresholds=[0.0, 5.0, 10.0], quantiles=[0.25, 0.5, 0.75], max_t=4, max_l=4, max_s=3, vrange=(0, 14),
                              fmt=("text" if precise else None),
                              leadtime_pool=([0, 6, 12, 101325.5, 24, 1.5] if precise else None),
                              times=subtimes)
    finally:
        gen.LOC_POOL = pool
    d = os.path.join(ctx.workdir, "c%d" % ci)
    os.makedirs(d, exist_ok=True)
    paths, _ = gen.materialize(ds, d, None)
    file_names = [i["name"] for i in ds["inputs"]]
    if F >= 2 and len(set(os.path.splitext(p)[1] for p in paths)) == 1 and rng.random() < 0.3:
        # the same file name in different directories: the columns carry the same name but each its own scores
        import shutil
        newp = []
        for i, pth in enumerate(paths):
            sub = os.path.join(d, "exp%d" % i)
            os.makedirs(sub, exist_ok=True)
            q = os.path.join(sub, "run" + os.path.splitext(pth)[1])
            shutil.copy(pth, q)
            newp.append(q)
        paths = newp
        file_names = [os.path.basename(q) for q in paths]
        ctx.count("same_basename_families")
    times, leads, locs = refmodel.common_dims(ds)
    if subhourly:
        ctx.count("subhourly_families")
        if len(set(refmodel.bucket("week", t=t) for t in times)) < len(set((refmodel.bucket("week", t=t), t % 3600) for t in times)):
            ctx.count("subhourly_families_with_runs_of_one_week_at_different_minutes")
    for rep in range(8):
        name = rng.choice(names)
        kind = needs(name)
        axis = rng.choice(refmodel.ALL_AXES + ["threshold", "threshold", "obs", "fcst"])
        otype = rng.choice(["csv", "text"])
        argv = ["-m", name, "-type", otype]
        thresholds = None
        bin_type = None
        agg = None
        import verif.metric
        m = verif.metric.get(name)
        if axis == "threshold" and not m.supports_threshold:
            axis = "leadtime"
        if axis in ("obs", "fcst") and not m.supports_field:
            axis = "leadtime"
        if kind == "det" or axis in ("obs", "fcst"):
            thresholds = sorted(rng.sample([1.0, 2.5, 5.0, 7.5, 10.0], rng.randint(2, 3)))
            argv += ["-r", ",".join(gen.fnum(t) for t in thresholds)]
            if rng.random() < 0.6:
                bin_type = rng.choice(list(attach.BIN_TABLE))
        elif kind == "thr":
            thresholds = sorted(rng.sample([0.0, 5.0, 10.0], rng.randint(1, 3)))
            argv += ["-r", ",".join(gen.fnum(t) for t in thresholds)]
            if rng.random() < 0.5:
                bin_type = rng.choice(["above", "below", "above=", "below=", "within"])
        elif kind == "q1":
            thresholds = sorted(rng.sample([0.25, 0.5, 0.75], rng.randint(1, 2) if name != "quantilecoverage" else 2))
            argv += ["-q", ",".join(gen.fnum(t) for t in thresholds)]
        elif kind == "q2":
            thresholds = [0.25, 0.75]
            argv += ["-q", "0.25,0.75"]
        if bin_type:
            ul, lc, uu, uc = attach.BIN_TABLE[bin_type]
            if ul and uu and (thresholds is None or len(thresholds) < 2):
                bin_type = None
        if thresholds and len(thresholds) >= 2 and axis == "threshold" and kind in ("det", "thr") and \
                not (bin_type and "within" in bin_type) and rng.random() < 0.4:
            # thresholds in the order the user gives them (rows "as given for thresholds")
            shuffled = list(thresholds)
            rng.shuffle(shuffled)
            if shuffled != thresholds:
                i_r = argv.index("-r")
                thresholds = shuffled
                argv[i_r + 1] = ",".join(gen.fnum(t) for t in thresholds)
                ctx.count("unsorted_threshold_tables")
        if bin_type:
            argv += ["-b", bin_type]
        if kind in ("q1", "q2") and not bin_type:
            pass
        argv += ["-x", axis]
        if m.supports_aggregator and rng.random() < 0.4:
            agg = rng.choice(["median", "max", "sum", "count", "std", "0.75"])
            argv += ["-agg", agg]
        leg = None
        if rng.random() < 0.4:
            leg = ["name %d" % i if rng.random() < 0.5 else "N%d" % i for i in range(F)]
            if F >= 2 and rng.random() < 0.3:
                leg[-1] = leg[0]          # the same legend text twice
                ctx.count("duplicate_legend_names")
            argv += ["-leg", ",".join(x.replace(" ", "_") for x in leg)]
        acc = rng.random() < 0.25
        if acc:
            argv += ["-acc"]
        tofile = rng.random() < 0.5
        case = {"ds": ds, "argv": argv}
        sig = "%s|%s|%s|f%d|leg%d|acc%d|F%d" % (name, axis, otype, tofile, bool(leg), acc, F)
        # stdout run (always) and -f run
        _audit["on"], _audit["writes"] = True, []
        o = runner.run_cli(paths + argv)
        _audit["on"] = False
        stray = [w for w in _audit["writes"] if not w.startswith(("/dev", "/proc"))]
        if stray:
            ctx.violation("writes-a-file-without--f", "verif %s opened %s for writing" % (" ".join(argv), stray), case)
        if o.status == "crash":
            ctx.violation("crash|%s@%s" % (o.exc_type, o.where), "verif <files> %s\n%s" % (" ".join(argv), o.tb), case)
            continue
        if o.status == "exit":
            ctx.count("error_exits")
            ctx.case(sig, False)
            continue
        text = o.stdout
        if tofile:
            fpath = os.path.join(d, "out%d.%s" % (rep, "csv" if otype == "csv" else "txt"))
            _audit["on"], _audit["writes"] = True, []
            o2 = runner.run_cli(paths + argv + ["-f", fpath])
            _audit["on"] = False
            ctx.count("file_vs_stdout")
            ctx.count("audit_open_write", len(_audit["writes"]))
            writes = [w for w in _audit["writes"] if not w.startswith(("/dev", "/proc"))]
            if o2.status != "ok" or not os.path.exists(fpath):
                ctx.violation("-f-failed", "verif %s -f out: %s" % (" ".join(argv), o2.brief()), case)
                continue
            if [os.path.abspath(w) for w in writes] != [os.path.abspath(fpath)]:
                ctx.violation("-f-writes-elsewhere", "files opened for writing: %s (expected only %s)" % (writes, fpath), case)
            body = open(fpath).read()
            shown = "\n".join(l for l in runner.strip_ansi(text).split("\n") if not l.startswith("Warning"))
            shown2 = "\n".join(l for l in runner.strip_ansi(o2.stdout).split("\n") if l.strip() and not l.startswith("Warning"))
            if body != shown:
                ctx.violation("-f-content-differs-from-stdout|%s" % otype, "file:\n%s\nstdout:\n%s" % (body[:400], shown[:400]), case)
            if shown2.strip():
                ctx.violation("-f-output-also-on-screen", "with -f the table is also printed: %r" % shown2[:300], case)
            text = body
        else:
            ctx.count("audit_open_write", 0)
        # parse
        if otype == "csv":
            header, rows = runner.parse_csv(text)
            sigd = 6
        else:
            header, rows = parse_text(text)
            sigd = 4
        ctx.count("tables")
        # expected header
        if axis in refmodel.LOC_AXES:
            want_desc = ["id", "lat", "lon", "elev"]
        elif axis == "threshold":
            want_desc = ["Threshold"]
        elif axis == "obs":
            want_desc = ["Observed"]
        elif axis == "fcst":
            want_desc = ["Forecasted"]
        else:
            want_desc = [refcli.AXIS_HEADER[axis]]
        want_names = leg or file_names
        if [h.strip() for h in header] != want_desc + want_names:
            ctx.violation("header|%s" % otype, "verif <files> %s\nheader %s, documented %s" % (" ".join(argv), header, want_desc + want_names), case)
            continue
        nd = len(want_desc)
        # expected numbers through the API
        try:
            api = api_table(paths, argv, name, axis, thresholds, bin_type, agg, acc)
        except SystemExit:
            continue
        except Exception as e:
            import traceback
            if traceback.extract_tb(e.__traceback__)[-1].filename.startswith(os.path.dirname(os.path.dirname(os.path.abspath(__file__)))):
                raise       # a defect of this harness, not of verif: must not pass silently
            ctx.note("api_table failed for %s: %r" % (argv, e))
            ctx.count("api_table_failures")
            continue
        if len(rows) != len(api):
            ctx.violation("row-count|%s" % otype, "verif <files> %s: %d rows, the API gives %d slices" % (" ".join(argv), len(rows), len(api)), case)
            continue
        bad = None
        allnan = True
        for i, (row, want) in enumerate(zip(rows, api)):
            for k in range(F):
                ctx.count("values_compared")
                txt = row[nd + k]
                w = want[k]
                if w == w:
                    allnan = False
                if w != w or w in (float("inf"), float("-inf")):
                    ok = txt.lower() == ("%g" % w).lower()
                else:
                    ok = vutil.close_text_number(txt, w, sigd)
                if not ok and bad is None:
                    bad = "row %d column %d: printed %s, computed score %r (format %s)" % (i, k, txt, w, "%g" if sigd == 6 else "%.4g")
        if bad:
            ctx.violation("printed-number-differs|%s|acc%d" % (otype, acc), "verif <files> %s\n%s\n%s" % (" ".join(argv), bad, runner.strip_ansi(text)[-600:]), case)
        if acc:
            ctx.count("acc_tables")
        # descriptors
        if axis in ("threshold", "obs", "fcst"):
            desc = [[t] for t in thresholds][:len(rows)] if thresholds is not None else None
        elif axis in refmodel.LOC_AXES:
            desc = [list(l) for l in locs]
        elif axis in ("time", "year", "month", "week", "day"):
            desc = [[refmodel.fmt_time_label(axis, lab)] for lab in refmodel.slice_labels(ds, axis)]
        else:
            desc = [[lab] for lab in refmodel.slice_labels(ds, axis)]
        if desc is not None and axis != "dayofyear" and axis not in ("threshold", "obs", "fcst") and len(rows) != len(desc):
            # one row per slice of the documented partition (computed from the inputs, not from verif's own axis values)
            ctx.violation("row-count-vs-partition|%s|%s" % (otype, axis),
                          "verif <files> %s: %d rows, the inputs have %d slices along %s" % (" ".join(argv), len(rows), len(desc), axis), case)
        if desc is not None and axis != "dayofyear":
            for i, row in enumerate(rows):
                if i >= len(desc):
                    break
                for j in range(nd):
                    ctx.count("descriptors_compared")
                    w = desc[i][j]
                    g = row[j]
                    if isinstance(w, str):
                        ok = g == w
                    else:
                        try:
                            # csv prints the value itself; the text format prints %g (6 significant digits)
                            ok = vutil.num_equal(float(g), float(w), 1e-12 if otype == "csv" else 1e-5, 1e-9)
                        except ValueError:
                            ok = False
                    if not ok:
                        ctx.violation("descriptor|%s|%s" % (otype, "time" if isinstance(w, str) else "number"),
                                      "verif <files> %s row %d: descriptor %r, documented %r" % (" ".join(argv), i, g, w), case)
                        break
        # independent reference where modelled
        if (name in refmetrics.DETERMINISTIC or name in refmetrics.CATEGORICAL or name in ("obs", "fcst")) and axis not in ("obs", "fcst") \
                and not (name == "rmsf") and otype == "csv":
            spec = {"metric": name, "axis": axis, "agg": agg, "thresholds": thresholds, "bin": bin_type,
                    "leg": leg or (file_names if file_names != [i["name"] for i in ds["inputs"]] else None), "acc": acc, "opts": {}}
            try:
                ref = refcli.table(ds, spec)
                msg = refcli.compare_table(header, rows, ref, sig=6)
                ctx.count("refcli_tables")
                if msg and axis != "dayofyear":
                    ctx.violation("differs-from-reference|%s" % name, "verif <files> %s\n%s" % (" ".join(argv), msg), case)
            except (KeyError, IndexError, TypeError):
                pass
        ctx.case(sig, len(rows) >= 2 and F >= 2 and not allnan,
                 {"argv": argv, "inputs": gen.ds_summary(ds), "rows": len(rows)})


def obsfcst_table(ctx, rng, ci, options=False):
    """-m obsfcst as a table: columns obs + one per input, aggregated over the cases where both obs and fcst exist.
    options=True (C13): always with -q, often with -leg, options in random order"""
    F = rng.choice([1, 2, 3])
    withq = rng.random() < 0.5 or options
    ds = gen.make_dataset(rng, n_inputs=F, miss=rng.choice([0.0, 0.15]), sparse=0.0, max_t=4, max_l=4, max_s=3, vrange=(0, 14),
                          prob=withq, thresholds=[5.0] if withq else None, quantiles=[0.1, 0.5, 0.9] if withq else None)
    d = os.path.join(ctx.workdir, "of%d" % ci)
    os.makedirs(d, exist_ok=True)
    paths, _ = gen.materialize(ds, d, None)
    axis = rng.choice(["leadtime", "time", "location", "month", "leadtimeday", "no"])
    agg = rng.choice([None, "median", "max", "sum"])
    otype = rng.choice(["csv", "text"])
    acc = rng.random() < 0.2
    qs = []
    if withq:
        # quantile columns: one per (quantile, file), quantile-major, named "<file> <level>%"
        otype = "csv"
        qs = rng.sample([0.1, 0.5, 0.9], rng.randint(1, 3))
    groups = [["-m", "obsfcst"], ["-x", axis], ["-type", otype]] + ([["-agg", agg]] if agg else []) + ([["-acc"]] if acc else []) + \
        ([["-q", ",".join(gen.fnum(q) for q in qs)]] if qs else [])
    names = [i["name"] for i in ds["inputs"]]
    if options:
        if rng.random() < 0.6:
            names = ["L%d" % (F - k) for k in range(F)]
            groups.append(["-leg", ",".join(names)])
            ctx.count("obsfcst_leg_tables")
        rng.shuffle(groups)
    argv = [a for g in groups for a in g]
    o = runner.run_cli(paths + argv)
    case = {"ds": ds, "argv": argv}
    if o.status != "ok":
        if o.status == "crash":
            ctx.violation("crash|%s@%s" % (o.exc_type, o.where), "verif <files> %s\n%s" % (" ".join(argv), o.tb), case)
        return
    header, rows = runner.parse_csv(o.stdout) if otype == "csv" else parse_text(o.stdout)
    ctx.count("tables")
    nd = 4 if axis in refmodel.LOC_AXES else 1
    want_names = ["obs"] + names + ["%s %g%%" % (n, q * 100) for q in qs for n in names]
    if [h.strip() for h in header][nd:] != want_names:
        ctx.violation("header|obsfcst", "header %s, documented ... %s" % (header, want_names), case)
        return
    fields = [("obs",), ("fcst",)]
    cols = []
    sl0 = refmodel.slices(ds, 0, fields, axis)
    cols.append([refmetrics.aggregate(agg or "mean", [c[0] for c in cs]) if cs else NAN for lab, cs in sl0])
    for k in range(F):
        sl = refmodel.slices(ds, k, fields, axis)
        cols.append([refmetrics.aggregate(agg or "mean", [c[1] for c in cs]) if cs else NAN for lab, cs in sl])
    for q in qs:
        for k in range(F):
            sl = refmodel.slices(ds, k, [("q", q), ("obs",)], axis)
            cols.append([refmetrics.aggregate(agg or "mean", [c[0] for c in cs]) if cs else NAN for lab, cs in sl])
            ctx.count("obsfcst_quantile_columns")
    if acc:
        for col in cols:
            run = 0.0
            for i in range(len(col)):
                run += 0.0 if col[i] != col[i] else col[i]
                col[i] = run
    if len(rows) != len(cols[0]):
        ctx.violation("row-count|obsfcst", "%d rows, %d slices" % (len(rows), len(cols[0])), case)
        return
    sig = 6 if otype == "csv" else 4
    for i, row in enumerate(rows):
        for j, col in enumerate(cols):
            ctx.count("values_compared")
            w = col[i]
            txt = row[nd + j]
            ok = (txt.lower() == "nan") if w != w else vutil.close_text_number(txt, w, sig)
            if not ok:
                ctx.violation("printed-number-differs|obsfcst|%s" % otype, "verif <files> %s row %d column %s: printed %s, defining %r"
                              % (" ".join(argv), i, want_names[j], txt, w), case)
                return
    ctx.case("obsfcst|%s|%s|acc%d|F%d|q%d" % (axis, otype, acc, F, len(qs)), len(rows) >= 2, {"argv": argv})


def run_shard(desc, ctx):
    if not _audit["installed"]:
        sys.addaudithook(_hook)
        _audit["installed"] = True
    rng = random.Random("C12-%s-%s" % (desc["seed"], desc["k"]))
    names = all_metric_names()
    for ci in range(desc["n"]):
        run_case(ctx, rng, ci, names)
        obsfcst_table(ctx, rng, ci)


def replay(case, ctx):
    run_shard({"seed": 0, "k": 0, "n": 2}, ctx)
