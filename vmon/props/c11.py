"""C11 Slicing along -x partitions the cases using correct calendar buckets."""
import os
import random

from vmon import gen, refmetrics, refmodel, runner, vutil

RULE = ("(a) EXHAUSTIVE: every calendar day 1900-01-01..2100-12-31 (73414 days) through date_to_unixtime, "
        "unixtime_to_date, date_to_datenum, unixtime_to_datenum, datenum_to_date: round trips are the identity and agree "
        "with an independent civil-calendar arithmetic; (b) the eight time-bucket functions and leadtimeday on random "
        "and boundary-clustered times (any hour, 1970-2100) against the same independent arithmetic (dayofyear: verif's "
        "leap-calendar numbering or the true ordinal, consistently); (c) generated datasets with initialisation times "
        "clustered at year/month/leap-day/week boundaries and irregular lead times: for all 16 axes + 'no', the slices "
        "returned by get_scores(axis, i) must partition the pooled valid cases (multiset union = pooled, counts add up, "
        "count-weighted mean of slice means = pooled mean), slice labels and csv row descriptors must equal the "
        "reference, `-x axis -agg count -type csv` must equal reference counts. signature = (axis, #slices, boundary "
        "classes hit); non-trivial = >= 2 slices and >= 1 time within a day of a bucket boundary.")
EXHAUSTIVE = "date conversions for every day 1900-2100"
RULE += " " + 'Whole times / lead times / locations whose values are exactly 0; shards rotate the process time zone.'
RULE += " " + 'Rounds 9-10: all-zero and all-missing slices with counts under -m obs/fcst; the partition of the cases SELECTED by -d/-tod on the time-derived axes; rapid-update run series (runs 15 min to 2 days apart).'
ASSUMPTIONS = ["initialisation times are whole seconds; UTC calendar; Monday-based weeks",
               "dayofyear numbering: either leap-year calendar (verif) or true ordinal is accepted, consistently"]
REQUIRED_COUNTERS = ["days_converted", "bucket_checks", "partition_checks", "label_checks", "csv_rows", "weighted_mean_checks"]
ROTATE_TZ = True       # the calendar is UTC whatever the time zone of the machine
ANCHOR_FUNCS = ["Data._apply_axis", "Week.compute_from_times", "util.date_to_unixtime"]


def plan(tier, seed):
    shards = [{"part": "days", "lo": y, "hi": y + 25} for y in range(1900, 2101, 25)]
    shards += [{"part": "buckets", "seed": seed, "k": k, "n": 1500 if tier == "quick" else 40000} for k in range(2)]
    shards += [{"part": "data", "seed": seed, "k": k, "n": 15 if tier == "quick" else 250} for k in range(8)]
    return shards


def run_days(desc, ctx):
    import verif.util
    lo = gen.civil_to_days(desc["lo"], 1, 1)
    hi = min(gen.civil_to_days(desc["hi"], 1, 1), gen.civil_to_days(2101, 1, 1))
    bad = 0
    for day in range(lo, hi):
        y, m, d, _, _, _ = gen.unix_to_civil(day * 86400)
        date = y * 10000 + m * 100 + d
        ctx.count("days_converted")
        ut = verif.util.date_to_unixtime(date)
        if ut != day * 86400:
            ctx.violation("date_to_unixtime", "date_to_unixtime(%d) = %r, calendar gives %d" % (date, ut, day * 86400), {"date": date})
            bad += 1
        back = verif.util.unixtime_to_date(day * 86400)
        if back != date:
            ctx.violation("unixtime_to_date", "unixtime_to_date(%d) = %r, calendar gives %d" % (day * 86400, back, date), {"date": date})
        back2 = verif.util.unixtime_to_date(day * 86400 + 86399)
        if back2 != date:
            ctx.violation("unixtime_to_date", "unixtime_to_date(last second of %d) = %r" % (date, back2), {"date": date})
        dn = verif.util.date_to_datenum(date)
        dn2 = verif.util.unixtime_to_datenum(day * 86400)
        if abs(dn - dn2) > 1e-9:
            ctx.violation("datenum-disagree", "date_to_datenum(%d)=%r but unixtime_to_datenum=%r" % (date, dn, dn2), {"date": date})
        if verif.util.datenum_to_date(dn) != date:
            ctx.violation("datenum_to_date", "datenum_to_date(date_to_datenum(%d)) = %r" % (date, verif.util.datenum_to_date(dn)), {"date": date})
        if abs(dn - float(day)) > 1e-9 and abs((dn - float(day)) - round(dn - float(day))) > 1e-9:
            ctx.violation("datenum-not-daily", "datenum of %d is %r: not a whole number of days from the epoch" % (date, dn), {"date": date})
        nxt = verif.util.get_date(date, 1)
        y2, m2, d2, _, _, _ = gen.unix_to_civil((day + 1) * 86400)
        if nxt != y2 * 10000 + m2 * 100 + d2:
            ctx.violation("get_date", "get_date(%d, 1) = %r" % (date, nxt), {"date": date})
        if bad > 5:
            break
        # every 1st and last of month is a boundary case
        if d == 1 or m == 12 and d == 31 or (m == 2 and d >= 28):
            ctx.case("day|%04d-%02d-%02d" % (y, m, d), True, {"date": date, "unixtime": day * 86400})
        else:
            ctx.case("day|ordinary|%d" % (y // 10), False)


TIME_AX = ["year", "month", "week", "day", "timeofday", "dayofyear", "dayofmonth", "monthofyear"]


def run_buckets(desc, ctx):
    import numpy as np
    import verif.axis
    rng = random.Random("C11-b-%s-%s" % (desc["seed"], desc["k"]))
    times = []
    for _ in range(desc["n"]):
        if rng.random() < 0.6:
            base = rng.choice(gen.BOUNDARY_TIMES) + rng.randint(-3, 3) * 86400
            t = base + rng.choice([0, 1, 3599, 3600, 43200, 86399, -1, rng.randint(0, 86399)])
        else:
            t = rng.randint(0, 4133980799)
        if 0 <= t <= 4133980799:
            times.append(t)
    arr = np.array(times)
    doy_mode = None
    for ax in TIME_AX:
        got = verif.axis.get(ax).compute_from_times(arr)
        for t, g in zip(times, np.asarray(got).tolist()):
            ctx.count("bucket_checks")
            want = refmodel.bucket(ax, t=t)
            ok = vutil.num_equal(float(g), float(want), 0, 1e-9)
            if ax == "dayofyear":
                alt = refmodel.bucket("dayofyear_true", t=t)
                if want != alt:
                    mode = "leap" if g == want else "true" if g == alt else "bad"
                    if mode == "bad" or (doy_mode and mode != doy_mode):
                        ok = False
                    else:
                        doy_mode = doy_mode or mode
                        ok = True
            if not ok:
                ctx.violation("bucket|%s" % ax, "%s bucket of unixtime %d (%s) = %r, calendar gives %r"
                              % (ax, t, gen.unix_to_civil(t), g, want), {"axis": ax, "t": t})
        ctx.case("bucket|%s" % ax, True, {"axis": ax, "n_times": len(times)})
    leads = [rng.choice([0, 1, 23, 23.5, 24, 24.5, 25, 47, 48, 49, 71.75, 72, 240, 400, rng.randint(0, 400)]) for _ in range(300)]
    got = verif.axis.get("leadtimeday").compute_from_leadtimes(np.array(leads, float))
    for l, g in zip(leads, np.asarray(got).tolist()):
        ctx.count("bucket_checks")
        if g != int(l // 24):
            ctx.violation("bucket|leadtimeday", "leadtimeday(%r) = %r, whole 24h periods = %d" % (l, g, int(l // 24)), {"l": l})
    ctx.case("bucket|leadtimeday", True)


def boundary_classes(times):
    cls = set()
    for t in times:
        y, m, d, H, M, S = gen.unix_to_civil(t)
        y2, m2, d2, _, _, _ = gen.unix_to_civil(t + 86400)
        if y2 != y:
            cls.add("year-end")
        elif m2 != m:
            cls.add("month-end")
        if m == 2 and d == 29:
            cls.add("leap-day")
        wd = (gen.civil_to_days(y, m, d) + 3) % 7
        if wd in (0, 6):
            cls.add("week-edge")
        if H == 23 or H == 0:
            cls.add("day-edge")
    return cls


def run_data(desc, ctx):
    import numpy as np
    import verif.field
    rng = random.Random("C11-d-%s-%s" % (desc["seed"], desc["k"]))
    for ci in range(desc["n"]):
        hours = rng.choice([None, [0, 6, 12, 18], [0, 23], list(range(24))])
        subtimes = None
        if rng.random() < 0.2:
            # rapid-update cycles: runs of one hour / day / week that differ in their minutes are one slice of the coarser axes
            t0 = gen.pick_times(rng, 1)[0]
            step = rng.choice([900, 1800, 5400, 86400 + 1800, 2 * 86400 + 900])
            subtimes = [t0 + j * step for j in range(rng.randint(3, 6))]
            ctx.count("datasets_with_subhourly_runs")
        ds = gen.make_dataset(rng, n_inputs=rng.choice([1, 1, 2]), fmt=rng.choice(["text", "nc"]), miss=rng.choice([0.0, 0.1, 0.25]),
                              max_t=6, max_l=5, hours=hours, sparse=0.0, times=subtimes,
                              leadtime_pool=[0, 1, 12, 23, 24, 25, 36, 47, 48, 49, 72, 96, 240, 400, 23.5, 71.75])
        if rng.random() < 0.35:
            # dry spells: every observation (or forecast) of a whole time, lead time or location is exactly 0 - still cases
            ctx.count("datasets_with_all_zero_slices")
            for _z in range(rng.randint(1, 3)):
                dim = rng.choice([0, 1, 2])
                i0_ = ds["inputs"][0]
                val = rng.choice([gen.fnum(int(x)) if dim == 0 else gen.fnum(x) for x in
                                  (i0_["times"] if dim == 0 else i0_["leadtimes"] if dim == 1 else [l_[0] for l_ in i0_["locs"]])])
                fld = rng.choice(["obs", "obs", "fcst", "both"])
                newv = rng.choice([0.0, 0.0, None])        # (None: a slice without any valid case - it holds zero cases)
                for inp in ds["inputs"]:
                    for k_, c_ in inp["cells"].items():
                        if k_.split("|")[dim] == val:
                            for f_ in (("obs", "fcst") if fld == "both" else (fld,)):
                                if c_.get(f_) is not None:
                                    c_[f_] = newv
        d = os.path.join(ctx.workdir, "d%d" % ci)
        os.makedirs(d, exist_ok=True)
        paths, _ = gen.materialize(ds, d, rng if rng.random() < 0.5 else None)
        data = vutil.build_data(paths)
        times, leads, locs = refmodel.common_dims(ds)
        bcls = boundary_classes(times)
        fields = [("obs",), ("fcst",)]
        vf = [verif.field.Obs(), verif.field.Fcst()]
        F = len(ds["inputs"])
        case = {"ds": ds}
        for k in range(F):
            pooled = [vutil.sentinel_or_list(g) for g in data.get_scores(list(vf), k, vutil.vaxis("no"), 0)]
            pooled_t = sorted(zip(*pooled)) if pooled[0] else []
            ref_pool = sorted(tuple(c[3]) for c in refmodel.valid_cases(ds, k, fields))
            if len(pooled_t) != len(ref_pool):
                ctx.violation("pooled-count", "input %d: pooled %d cases, reference %d" % (k, len(pooled_t), len(ref_pool)), case)
            for axis in refmodel.ALL_AXES:
                vax = vutil.vaxis(axis)
                labels = refmodel.slice_labels(ds, axis)
                got_labels = list(np.asarray(data.get_axis_values(vax), float))
                ctx.count("label_checks")
                lab_ok = len(labels) == len(got_labels)
                if lab_ok and axis == "dayofyear":
                    alt = sorted(set(refmodel.bucket("dayofyear_true", t=t) for t in times))
                    lab_ok = all(vutil.num_equal(a, float(b)) for a, b in zip(got_labels, labels)) or \
                        (len(alt) == len(got_labels) and all(vutil.num_equal(a, float(b)) for a, b in zip(got_labels, alt)))
                elif lab_ok:
                    lab_ok = all(vutil.num_equal(a, float(b)) for a, b in zip(got_labels, labels))
                if not lab_ok:
                    ctx.violation("slice-labels|%s" % axis, "axis %s: verif labels %s, calendar gives %s" % (axis, got_labels, labels), case)
                    continue
                union = []
                counts = []
                means = []
                ref_slices = refmodel.slices(ds, k, fields, axis)
                for i in range(len(labels)):
                    got = [vutil.sentinel_or_list(g) for g in data.get_scores(list(vf), k, vax, i)]
                    tup = sorted(zip(*got)) if got[0] else []
                    union += tup
                    counts.append(len(tup))
                    means.append(refmetrics.mean([abs(a - b) for a, b in tup]) if tup else float("nan"))
                    ref_i = sorted(tuple(v) for v in ref_slices[i][1])
                    if axis != "dayofyear" and tup != ref_i:
                        ctx.violation("slice-content|%s" % axis, "axis %s slice %d (label %s) input %d: verif has %d cases, calendar "
                                      "assignment gives %d" % (axis, i, labels[i], k, len(tup), len(ref_i)), case)
                ctx.count("partition_checks")
                if sorted(union) != pooled_t:
                    ctx.violation("not-a-partition|%s" % axis, "axis %s input %d: the slices hold %d cases in total, the pooled data %d "
                                  "(some case is in no slice or in two)" % (axis, k, len(union), len(pooled_t)), case)
                if pooled_t:
                    ctx.count("weighted_mean_checks")
                    pm = refmetrics.mean([abs(a - b) for a, b in pooled_t])
                    wm = sum(c * m for c, m in zip(counts, means) if c) / float(sum(counts)) if sum(counts) else float("nan")
                    if not vutil.num_equal(pm, wm, 1e-9, 1e-9):
                        ctx.violation("weighted-mean|%s" % axis, "axis %s: pooled MAE %r != count-weighted mean of slices %r" % (axis, pm, wm), case)
                if k == 0:
                    ctx.case("%s|n%d|%s" % (axis, min(len(labels), 4), "+".join(sorted(bcls)) or "none"),
                             len(labels) >= 2 and bool(bcls), {"inputs": gen.ds_summary(ds), "axis": axis, "labels": labels[:6]})
        # the same partition under a -d / -tod selection (the buckets are those of the times that remain)
        from vmon.props import c03 as _c03
        sel = {}
        for _try in range(6):
            o_, _cl = _c03.gen_opts(rng, ds)
            o_ = {k_: v_ for k_, v_ in o_.items() if k_ in ("dates", "tods")}
            if o_:
                t_, l_, s_ = refmodel.common_dims(ds, o_)
                if t_ and l_ and s_ and len(t_) < len(times):
                    sel = o_
                    break
        if sel:
            ctx.count("selection_partition_cases")
            data2 = vutil.build_data(paths, None, sel)
            for axis in rng.sample(["year", "month", "week", "day", "timeofday", "dayofyear", "dayofmonth", "monthofyear", "time"], 4):
                vax = vutil.vaxis(axis)
                for k in range(F):
                    ref = refmodel.slices(ds, k, fields, axis, sel)
                    if data2.get_axis_size(vax) != len(ref):
                        ctx.violation("slice-count-under-selection|%s" % axis, "%s -x %s: %d slices, calendar gives %d"
                                      % (vutil.opts_to_argv(sel), axis, data2.get_axis_size(vax), len(ref)), case)
                        break
                    for idx in range(len(ref)):
                        try:
                            go, gf = data2.get_scores([vutil.vfield(("obs",)), vutil.vfield(("fcst",))], k, vax, idx)
                        except SystemExit:
                            break
                        got = sorted(zip([float(x) for x in go], [float(x) for x in gf]))
                        want = sorted((float(c_[0]), float(c_[1])) for c_ in ref[idx][1])
                        if got and got[0][0] != got[0][0] and not want:
                            continue
                        if len(got) != len(want) or any(not (vutil.num_equal(a_[0], b_[0], 1e-6, 1e-9) and vutil.num_equal(a_[1], b_[1], 1e-6, 1e-9))
                                                        for a_, b_ in zip(got, want)):
                            ctx.violation("slice-content-under-selection|%s" % axis, "%s -x %s slice %d (%s) input %d: %d cases %s, calendar "
                                          "bucket holds %d cases %s" % (vutil.opts_to_argv(sel), axis, idx, ref[idx][0], k, len(got), got[:4],
                                                                        len(want), want[:4]), case)
                            break
        # csv: counts and descriptors
        for axis in rng.sample(refmodel.ALL_AXES, 5):
            cm = rng.choice(["mae", "obs", "fcst"])
            cfields = fields if cm == "mae" else [(cm,)]
            o = runner.run_cli(paths + ["-m", cm, "-x", axis, "-agg", "count", "-type", "csv"])
            if o.status != "ok":
                ctx.violation("csv-failed|%s" % axis, str(o.brief()), case)
                continue
            h, rows = runner.parse_csv(o.stdout)
            ncol = len(h) - F
            ref0 = refmodel.slices(ds, 0, cfields, axis)
            if len(rows) != len(ref0):
                ctx.violation("csv-row-count|%s" % axis, "%d rows, %d slices" % (len(rows), len(ref0)), case)
                continue
            for i, row in enumerate(rows):
                ctx.count("csv_rows")
                for k in range(F):
                    n = len(refmodel.slices(ds, k, cfields, axis)[i][1])
                    g = row[ncol + k]
                    if not ((n == 0 and g.lower() in ("nan", "0")) or (n > 0 and g == "%g" % n)):
                        if axis != "dayofyear":
                            ctx.violation("csv-count|%s" % axis, "-m %s -x %s -agg count row %d col %d = %s, reference %d" % (cm, axis, i, k, g, n), case)
                if axis in ("time", "year", "month", "week", "day"):
                    want = refmodel.fmt_time_label(axis, ref0[i][0])
                    if row[0] != want:
                        ctx.violation("csv-descriptor|%s" % axis, "-x %s row %d labelled %r, calendar gives %r" % (axis, i, row[0], want), case)
                elif axis in refmodel.LOC_AXES:
                    loc = locs[i]
                    want = [float(x) for x in loc]
                    gotd = [float(x) for x in row[:4]]
                    if not all(vutil.num_equal(a, b, 1e-6, 1e-6) for a, b in zip(gotd, want)):
                        ctx.violation("csv-descriptor|location", "-x %s row %d descriptors %s, expected id/lat/lon/elev %s" % (axis, i, row[:4], want), case)
                elif axis != "no" and axis != "dayofyear":
                    if not vutil.num_equal(float(row[0]), float(ref0[i][0]), 1e-6, 1e-9):
                        ctx.violation("csv-descriptor|%s" % axis, "-x %s row %d labelled %r, expected %r" % (axis, i, row[0], ref0[i][0]), case)


def run_shard(desc, ctx):
    {"days": run_days, "buckets": run_buckets, "data": run_data}[desc["part"]](desc, ctx)


def replay(case, ctx):
    if case and "date" in case:
        y = int(case["date"]) // 10000
        run_days({"lo": y, "hi": y + 1}, ctx)
    elif case and "ds" in case:
        # re-run the data part on the recorded dataset
        import verif.field  # noqa
        _replay_ds(case["ds"], ctx)
    else:
        run_buckets({"seed": 0, "k": 0, "n": 2000}, ctx)


def _replay_ds(ds, ctx):
    class OneShot(random.Random):
        pass
    import vmon.gen as g
    orig = g.make_dataset
    try:
        g.make_dataset = lambda *a, **k: ds
        run_data({"seed": 0, "k": 0, "n": 1}, ctx)
    finally:
        g.make_dataset = orig
