"""C19 Documented metric/axis/output combinations never crash."""
import os
import zlib
import random

from vmon import gen, runner

RULE = ("cross product of (every valid metric class + the 28 diagrams) x (19 -x dimensions + default) x 8 output "
        "types x option variants (-r/-q none|single|several, -b, -agg) on five generated dataset shapes "
        "(two probabilistic+ensemble inputs; single time and location; an all-missing lead time and location; one "
        "deterministic input; two shuffled NetCDF inputs with a climatology); quick = pairwise-covering sample (every metric x axis and metric x type), thorough = full product. "
        "A case is one command line; its signature is (metric, axis, type, variant, shape); every combination is a "
        "distinct obligation, so every executed signature counts as non-trivial. Oracle: outcome must be 'output "
        "produced' or 'error message + non-zero exit'; anything else (exception, silent exit, no output) is a violation.")
RULE += " " + 'Shape noobs has no valid case at all. Every diagram/map/rank/impact figure and a sixth of the standard figures are rendered in memory (canvas.draw): a figure that cannot be drawn is a crash.'
RULE += " " + 'Shapes x0pit (discrete mass, different coverage), every bin type with 1 and 3 thresholds, maprank / rank on five files.'
RULE += " " + "Rounds 9-10: NetCDF units '%'; shape dry (a station that only observes 0, a lead time with flat forecasts) drawn along location/leadtime/elev for every metric and diagram."
RULE += " " + 'Rounds 11-12: shape large (12 600 cases) for every diagram.'
ASSUMPTIONS = ["matplotlib Agg backend; every diagram / map / rank / impact figure and a sixth of the standard-metric figures are rendered in memory (canvas.draw); files are written by C17",
               "cartopy is absent, so map types use the plain-axes path"]
REQUIRED_COUNTERS = ["runs", "ok", "error_exit"]
TIMEOUT = {"quick": 1200, "thorough": 7200}

DIAGRAMS = ["pithist", "obsfcst", "timeseries", "meteo", "qq", "autocorr", "autocov", "fss", "cond", "against",
            "scatter", "change", "spreadskill", "taylor", "error", "freq", "roc", "droc", "droc0", "reliability",
            "discrimination", "performance", "invreliability", "murphy", "bsdecomp", "igncontrib", "economicvalue",
            "marginal"]
AXES = [None, "time", "leadtime", "year", "month", "week", "day", "timeofday", "dayofyear", "monthofyear",
        "dayofmonth", "location", "elev", "lat", "lon", "threshold", "leadtimeday", "no", "obs", "fcst"]
TYPES = ["plot", "text", "csv", "map", "rank", "maprank", "impact", "mapimpact"]
VARIANTS = ["none", "r1", "r3", "q2", "r1q1", "b_within", "agg_median", "b_below_eq", "r1_within", "q1", "agg_min", "agg_range", "agg_iqr", "agg_q", "agg_count", "sub_tod", "sub_d", "sub_o", "r3_aggmax", "r3_aggq"]
SHAPES = ["prob2", "single", "allmiss", "det1", "nc2c", "five", "noobs", "x0pit", "dry"]


def metric_names():
    import verif.metric
    return sorted(m[0].lower() for m in verif.metric.get_all() if m[1].is_valid())


def build_shape(shape, workdir, seed):
    rng = random.Random(1000 + seed)
    d = os.path.join(workdir, shape)
    os.makedirs(d, exist_ok=True)
    if shape == "prob2":
        ds = gen.make_dataset(rng, n_inputs=2, fmt="text", prob=True, ens=True, pit=True, miss=0.1, sparse=0.0,
                              thresholds=[0.0, 5.0, 10.0], quantiles=[0.1, 0.5, 0.9])
    elif shape == "single":
        ds = gen.make_dataset(rng, n_inputs=2, fmt="text", prob=True, ens=True, pit=True, miss=0.0, sparse=0.0,
                              thresholds=[0.0, 5.0, 10.0], quantiles=[0.1, 0.5, 0.9], same_dims=True)
        for inp in ds["inputs"]:
            t0, s0 = inp["times"][0], inp["locs"][0]
            inp["times"] = [t0]
            inp["locs"] = [s0]
            inp["cells"] = {k: v for k, v in inp["cells"].items()
                            if k.split("|")[0] == str(t0) and k.split("|")[2] == gen.fnum(s0[0])}
    elif shape == "x0pit":
        # a variable with a discrete mass at 0 (precipitation): "# x0: 0" in the header switches the PIT randomisation on;
        # the two files cover different times / lead times / locations
        ds = gen.make_dataset(rng, n_inputs=2, fmt="text", prob=True, ens=True, pit=True, miss=0.1, sparse=0.0, same_dims=False,
                              thresholds=[0.0, 5.0, 10.0], quantiles=[0.1, 0.5, 0.9], vrange=(0, 12))
        # make sure the selection is smaller than the first file: the second file lacks the first one's last lead time
        i0, i1 = ds["inputs"]
        common_l = [l for l in i0["leadtimes"] if l in i1["leadtimes"]]
        if len(common_l) >= 2 and list(i0["leadtimes"]) == list(i1["leadtimes"]):
            ldrop = gen.fnum(i1["leadtimes"][-1])
            i1["cells"] = {k: c for k, c in i1["cells"].items() if k.split("|")[1] != ldrop}
            i1["leadtimes"] = i1["leadtimes"][:-1]
        for inp in ds["inputs"]:
            inp["variable"] = {"name": "Precip", "units": "mm", "x0": 0.0, "x1": None}
            for c in inp["cells"].values():
                if c.get("obs") is not None and rng.random() < 0.3:
                    c["obs"] = 0.0
        # a dry station: every observation of the first location is exactly 0 while the forecasts vary (no variance in that slice)
        common_s = sorted(set(tuple(x) for x in i0["locs"]) & set(tuple(x) for x in i1["locs"])) or sorted(i0["locs"])
        dry = gen.fnum(common_s[0][0])
        for inp in ds["inputs"]:
            for k, c in inp["cells"].items():
                if k.split("|")[2] == dry and c.get("obs") is not None:
                    c["obs"] = 0.0
    elif shape == "dry":
        # a full grid (at least 3 times, lead times and locations) where one station never observes anything but 0 and one
        # lead time's forecasts are all the same value: slices with variance 0 on one side only
        ds = None
        for _ in range(50):
            ds = gen.make_dataset(rng, n_inputs=2, fmt="text", prob=True, ens=True, pit=True, miss=0.0, sparse=0.0, same_dims=True,
                                  thresholds=[0.0, 5.0, 10.0], quantiles=[0.1, 0.5, 0.9], vrange=(0, 12), max_t=4, max_l=4, max_s=4)
            i0 = ds["inputs"][0]
            if len(i0["times"]) >= 3 and len(i0["leadtimes"]) >= 3 and len(i0["locs"]) >= 3:
                break
        dry = gen.fnum(sorted(i0["locs"])[0][0])
        flat = gen.fnum(sorted(i0["leadtimes"])[-1])
        for inp in ds["inputs"]:
            for k, c in inp["cells"].items():
                if k.split("|")[2] == dry and c.get("obs") is not None:
                    c["obs"] = 0.0
                if k.split("|")[1] == flat and c.get("fcst") is not None:
                    c["fcst"] = 3.0
    elif shape == "noobs":
        # observations have not arrived yet: every obs is missing, so no case is valid anywhere
        ds = gen.make_dataset(rng, n_inputs=2, fmt="text", prob=True, ens=True, pit=True, miss=0.05, sparse=0.0,
                              thresholds=[0.0, 5.0, 10.0], quantiles=[0.1, 0.5, 0.9], same_dims=True)
        for inp in ds["inputs"]:
            for c in inp["cells"].values():
                c["obs"] = None
                c["pit"] = None
    elif shape == "allmiss":
        ds = gen.make_dataset(rng, n_inputs=2, fmt="text", prob=True, ens=True, pit=True, miss=0.05, sparse=0.0,
                              thresholds=[0.0, 5.0, 10.0], quantiles=[0.1, 0.5, 0.9], same_dims=True)
        inp = ds["inputs"][0]
        # one location without any observation as well
        s0 = gen.fnum(inp["locs"][-1][0])
        for k, c in ds["inputs"][1]["cells"].items():
            if k.split("|")[2] == s0:
                c["obs"] = None
        for k, c in inp["cells"].items():
            if k.split("|")[2] == s0:
                c["obs"] = None
        l0 = inp["leadtimes"][-1]
        for k, c in inp["cells"].items():
            if k.split("|")[1] == gen.fnum(l0):
                for f in ("obs", "fcst", "pit"):
                    c[f] = None
                c["p"] = [None] * len(inp["thresholds"])
                c["q"] = [None] * len(inp["quantiles"])
                c["e"] = [None] * inp["members"]
    elif shape == "five":
        ds = gen.make_dataset(rng, n_inputs=5, fmt="text", prob=True, ens=True, pit=True, miss=0.05, sparse=0.0, members=2,
                              thresholds=[0.0, 5.0, 10.0], quantiles=[0.1, 0.5, 0.9], max_t=3, max_l=3, max_s=3)
    elif shape == "nc2c":
        # two NetCDF inputs with shuffled dimension entries and mixed missing encodings, plus a climatology (-c)
        ds = gen.make_dataset(rng, n_inputs=2, fmt="nc", clim=True, prob=True, ens=True, pit=True, miss=0.1, members=3,
                              thresholds=[0.0, 5.0, 10.0], quantiles=[0.1, 0.5, 0.9])
        for inp in ds["inputs"]:
            order = {"time": list(range(len(inp["times"]))), "leadtime": list(range(len(inp["leadtimes"]))),
                     "location": list(range(len(inp["locs"])))}
            for k in order:
                rng.shuffle(order[k])
            inp["style"] = {"order": order, "enc": ["fill", "nan", "m999"], "vars": {"location": True, "lat": True, "lon": True, "altitude": True},
                            "time_type": "f8"}
            # units that are special characters for the label renderer (relative humidity, cloud cover)
            inp["variable"] = {"name": "RH", "units": "%", "x0": None, "x1": None}
        paths, cpath = gen.materialize(ds, d, rng)
        return paths + ["-c", cpath]
    elif shape == "large":
        # a year of twice-daily runs at 30 stations: 12 600 cases (diagrams choose their number of bins from the sample size:
        # more than 11 000 pairs is where that choice leaves its lower bound)
        times = [1293840000 + 43200 * i for i in range(60)]
        locs = [[1000 + i, 50.0 + 0.25 * i, 5.0 + 0.5 * i, 10.0 * i] for i in range(30)]
        inps = [gen.make_input(rng, "big%d.nc" % k, "nc", times, [0, 6, 12, 18, 24, 36, 48], locs, has=("obs", "fcst", "pit"),
                               thresholds=[0.0, 5.0, 10.0], quantiles=[0.1, 0.5, 0.9], miss=0.01, vrange=(0, 12)) for k in range(2)]
        for c0, c1 in zip(inps[0]["cells"].values(), inps[1]["cells"].values()):
            c1["obs"] = c0["obs"]
        ds = {"inputs": inps, "clim": None}
    else:
        ds = gen.make_dataset(rng, n_inputs=1, fmt="text", miss=0.1, sparse=0.0)
    paths, _ = gen.materialize(ds, d, None)
    return paths


BINS8 = ["below", "below=", "above", "above=", "within", "=within", "within=", "=within="]


def variant_args(v):
    if v.startswith("b1_"):
        return ["-r", "5", "-b", v[3:]]
    if v.startswith("b3_"):
        return ["-r", "0,5,10", "-b", v[3:]]
    return {"none": [], "r1": ["-r", "5"], "r3": ["-r", "0,5,10"], "q2": ["-q", "0.1,0.9"],
            "r1q1": ["-r", "5", "-q", "0.5"], "b_within": ["-r", "0,5,10", "-b", "within"],
            "agg_median": ["-agg", "median"], "b_below_eq": ["-r", "5", "-b", "below="],
            "r1_within": ["-r", "5", "-b", "within="], "q1": ["-q", "0.5"], "agg_min": ["-agg", "min"],
            "agg_range": ["-agg", "range"], "agg_iqr": ["-agg", "iqr"], "agg_q": ["-agg", "0.9"], "agg_count": ["-agg", "count"], "r3_aggmax": ["-r", "-100,0,5,1000", "-agg", "max", "-b", "within"],
            "r3_aggq": ["-r", "-100,0,5,1000", "-agg", "0.3"]}[v]


def all_combos(metrics, tier):
    names = metrics + DIAGRAMS
    combos = []
    # the large sample: every diagram, and a few scores, once without and once with a threshold
    for m in DIAGRAMS + ["mae", "ets", "bs", "pit"]:
        combos.append((m, None, "plot", "none", "large"))
        combos.append((m, None, "plot", "r1", "large"))
    if tier == "thorough":
        for sh in SHAPES:
            for m in names:
                for ax in AXES:
                    for ty in TYPES:
                        for v in (["none", "r1", "r3", "agg_min", "agg_q"] if sh != "prob2" else
                                  VARIANTS + ["b1_" + b for b in BINS8] + ["b3_" + b for b in BINS8]):
                            combos.append((m, ax, ty, v, sh))
    else:
        for m in names:
            for ax in AXES:
                combos.append((m, ax, "csv", "none", "prob2"))
                combos.append((m, ax, "plot", "r1", "prob2"))
            for ty in TYPES:
                for v in ("none", "r1", "r3"):
                    combos.append((m, None, ty, v, "prob2"))
            for sh in SHAPES[1:]:
                for v in ("none", "r1"):
                    combos.append((m, None, "plot", v, sh))
                    combos.append((m, None, "csv", v, sh))
            # every bin type with one and with three thresholds (diagrams accept or reject them one by one)
            for b in BINS8:
                combos.append((m, None, "plot", "b1_" + b, "prob2"))
                combos.append((m, None, "csv", "b3_" + b, "prob2"))
            # more than two files: ranking and map legends have their own code for this case
            combos.append((m, None, "maprank", "none", "five"))
            combos.append((m, None, "rank", "agg_min", "five"))
            for v in VARIANTS[3:]:
                combos.append((m, None, "plot", v, "prob2"))
                combos.append((m, "no", "text", v, "prob2"))
            # conditional axes with intervals that hold no value, under order-statistic aggregators
            for v in ("r3_aggmax", "r3_aggq"):
                for ax in ("obs", "fcst", "threshold"):
                    combos.append((m, ax, "csv", v, "prob2"))
            # subsetting options combined with derived time axes
            for v in ("sub_tod", "sub_d", "sub_o"):
                for ax in ("month", "week", "timeofday", "day", "year", "leadtimeday"):
                    combos.append((m, ax, "csv", v, "prob2"))
            # slices without variance (a dry station, obs all 0) drawn along the dimensions
            for ax in ("location", "leadtime", "elev"):
                combos.append((m, ax, "plot", "none", "dry"))
            # slices without any valid case, under every kind of aggregator
            for v in ("agg_min", "agg_range", "agg_iqr", "agg_q", "agg_count", "agg_median"):
                for ax in ("location", "leadtime"):
                    combos.append((m, ax, "csv", v, "allmiss"))
                combos.append((m, None, "map", v, "allmiss"))
    return combos


def plan(tier, seed):
    n = 16 if tier == "quick" else 64
    return [{"tier": tier, "seed": seed, "shard": i, "nshards": n} for i in range(n)]


def subset_args(paths, v):
    """-tod / -d / -o values that keep a strict, non-empty subset of the first file's times / lead times"""
    import verif.input
    import verif.util
    f = [p for p in paths if not p.startswith("-")][0]
    inp = verif.input.get_input(f)
    t = sorted(float(x) for x in inp.times)
    if v == "sub_tod":
        return ["-tod", "%d" % ((int(t[0]) % 86400) // 3600)]
    if v == "sub_d":
        return ["-d", "%d" % verif.util.unixtime_to_date(int(t[-1]))]
    return ["-o", "%g" % sorted(float(x) for x in inp.leadtimes)[0]]


def build_argv(paths, m, ax, ty, v):
    argv = list(paths) + ["-m", m]
    if ax is not None:
        argv += ["-x", ax]
    if ty != "plot":
        argv += ["-type", ty]
    argv += subset_args(paths, v) if v.startswith("sub_") else variant_args(v)
    return argv


def judge(o, ty):
    """Return (kind, key, msg) ; kind in ok | error_exit | violation."""
    if o.status == "crash":
        return "violation", "%s@%s|type=%s" % (o.exc_type, o.where, ty), o.tb
    text = runner.strip_ansi(o.stdout)
    if o.status == "exit":
        if o.code in (0, None):
            return "violation", "exit-status-zero|type=%s" % ty, "SystemExit(%r) stdout=%r" % (o.code, text[-300:])
        if "Error" not in text and text.strip() == "":
            return "violation", "exit-without-message|type=%s" % ty, "SystemExit(%r) without any message" % (o.code,)
        return "error_exit", None, None
    # ok
    if ty in ("csv", "text"):
        body = [l for l in text.split("\n") if l.strip() and not l.startswith("Warning")]
        if len(body) < 1:
            return "violation", "no-table-output|type=%s" % ty, "returned normally without a table: %r" % text[-300:]
        if len(body) < 2:
            return "empty_table", None, None    # header only (nothing to report, e.g. no quantiles): not a crash
    else:
        if o.fig is None or len(o.fig.axes) == 0:
            return "violation", "no-figure-output|type=%s" % ty, "returned normally without drawing anything"
    return "ok", None, None


def run_one(ctx, shapes, combo):
    import matplotlib.pyplot as mpl
    m, ax, ty, v, sh = combo
    argv = build_argv(shapes[sh], m, ax, ty, v)
    o = runner.run_cli(argv, keep_fig=True)
    kind, key, msg = judge(o, ty)
    if kind == "ok" and ty not in ("csv", "text") and o.fig is not None and \
            (m in DIAGRAMS or ty != "plot" or zlib.crc32(repr(combo).encode()) % 6 == 0):
        # the figure must also be drawable (what -f or the interactive window does next); rendered in memory
        ctx.count("figures_rendered")
        try:
            o.fig.canvas.draw()
        except Exception as e:
            import traceback
            kind, key = "violation", "figure-cannot-be-drawn|%s|type=%s" % (type(e).__name__, ty)
            msg = "the figure was built but rendering it fails:\n" + "".join(traceback.format_exception(type(e), e, e.__traceback__)[-6:])
    mpl.close("all")
    ctx.count("runs")
    ctx.count(kind)
    if kind == "empty_table":
        kind = "ok"
    rel = [os.path.basename(a) if os.sep in a else a for a in argv]
    ctx.case("%s|%s|%s|%s|%s" % (m, ax, ty, v, sh), True,
             {"argv": rel, "shape": sh, "outcome": kind, "status": o.status})
    if kind == "violation":
        mkey = m if m in DIAGRAMS else "metric"
        ctx.violation(key + "|m=" + mkey, "verif %s\n%s" % (" ".join(rel), msg),
                      {"combo": list(combo), "seed": ctx.desc.get("seed", 0)})


def run_shard(desc, ctx):
    seed = desc["seed"]
    shapes = {sh: build_shape(sh, ctx.workdir, seed) for sh in SHAPES}
    combos = all_combos(metric_names(), desc["tier"])
    rng = random.Random(seed)
    rng.shuffle(combos)
    for i, combo in enumerate(combos):
        if i % desc["nshards"] != desc["shard"]:
            continue
        if combo[4] not in shapes:
            shapes[combo[4]] = build_shape(combo[4], ctx.workdir, seed)      # built only by the shards that use it
        run_one(ctx, shapes, combo)


def replay(case, ctx):
    shapes = {sh: build_shape(sh, ctx.workdir, case.get("seed", 0)) for sh in SHAPES + ["large"]}
    run_one(ctx, shapes, tuple(case["combo"]))
