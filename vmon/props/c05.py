"""C05 Deterministic scores equal their published definitions."""
import math
import os
import random

from vmon import attach, gen, refmetrics, refmodel, runner, vutil

RULE = ("vectors of length 0-60 of eight classes (normal, integer with ties, constant, all-negative, zeros, single pair, "
        "obs==fcst, strictly positive) with NaNs sprinkled into either side, for every deterministic metric x every "
        "aggregator it supports, through Metric.compute_from_obs_fcst; the same metrics through Metric.compute on real "
        "Data objects built from generated files (all axes incl. the conditional -x obs / -x fcst axes) and through "
        "`-m <metric> -type csv`; FromField metrics (obs, fcst) with every aggregator; perfect-forecast attainment and "
        "never-better-than-perfect for error/skill metrics. Oracle: vmon.refmetrics (textbook formulas, pure Python). "
        "Where the definition is undefined the result must be NaN or non-finite. signature = (metric, aggregator, vector "
        "class, entry point); non-trivial = length >= 2 with a defined value, or an undefined case.")
RULE += " " + 'Vector class offset (forecast = obs + non-binary constant); irrelevant -r/-b on deterministic scores; sub-percent quantile aggregator levels.'
RULE += " " + 'Rounds 9-10: metrics that do not support -agg are also run with an (ignored) -agg; vector classes offset and tiny (values of order 1e-5 with non-zero variance).'
RULE += " " + 'Rounds 11-12: every metric leaves the arrays it is given unchanged; half of the datasets get all six scores along one axis from one Data object.'
ASSUMPTIONS = ["population (1/N) variance in stderror/std, as verif documents 'standard deviation' without Bessel correction",
               "rank correlation = Pearson correlation of mid-ranks; Kendall = tau-b"]
REQUIRED_COUNTERS = ["vector_evals", "perfect_checks", "never_better_checks", "data_evals", "csv_values", "undefined_checks"]
ANCHOR_FUNCS = ["ObsFcstBased.compute_from_obs_fcst", "ObsFcstBased.compute_single", "FromField.compute_single"]

NAN = float("nan")
AGGS = refmetrics.AGG_NAMES + ["0", "0.25", "0.5", "0.9", "1", "0.975", "0.025", "0.333", "0.995"]
# verif class name (lower) -> reference name
NAMES = {"mae": "mae", "bias": "bias", "rmse": "rmse", "stderror": "stderror", "corr": "corr", "rankcorr": "rankcorr",
         "kendallcorr": "kendallcorr", "nsec": "nsec", "nnsec": "nnsec", "kge": "kge", "cmae": "cmae", "rmsf": "rmsf",
         "dmb": "dmb", "mbias": "mbias", "ef": "ef", "derror": "derror", "leps": "leps", "alphaindex": "alphaindex",
         "diff": "diff", "ratio": "ratio", "obsstddev": "obsstddev", "fcststddev": "fcststddev"}
ERROR_SKILL = ["mae", "rmse", "stderror", "cmae", "corr", "rankcorr", "kendallcorr", "nsec", "nnsec", "kge", "derror",
               "leps", "alphaindex"]
ATTAIN_ONLY = ["bias", "diff", "ratio", "dmb", "mbias", "rmsf"]


def plan(tier, seed):
    n = 60 if tier == "quick" else 2500
    shards = [{"part": "vectors", "seed": seed, "k": k, "n": n} for k in range(10)]
    nd = 15 if tier == "quick" else 150
    shards += [{"part": "data", "seed": seed, "k": k, "n": nd} for k in range(6)]
    return shards


def gen_vector(rng):
    cls = rng.choice(["normal", "ties", "constant", "negative", "zeros", "single", "perfect", "positive", "empty", "offset", "tiny"])
    n = rng.choice([2, 3, 5, 8, 13, 30, 60])
    if cls == "single":
        n = 1
    if cls == "empty":
        n = 0
    if cls == "normal":
        o = [round(rng.gauss(5, 4), 3) for _ in range(n)]
        f = [round(x + rng.gauss(0.5, 2), 3) for x in o]
    elif cls == "ties":
        o = [float(rng.randint(0, 3)) for _ in range(n)]
        f = [float(rng.randint(0, 3)) for _ in range(n)]
    elif cls == "constant":
        c = rng.choice([0.0, 2.5, -1.0])
        which = rng.choice(["obs", "fcst", "both"])
        o = [c if which in ("obs", "both") else round(rng.gauss(0, 2), 2) for _ in range(n)]
        f = [c + (1.0 if which == "both" and rng.random() < 0.5 else 0.0) if which in ("fcst", "both") else round(rng.gauss(0, 2), 2)
             for _ in range(n)]
        if which == "both":
            f = [f[0]] * n
    elif cls == "tiny":
        # physically small numbers (a flux in kg m-2 s-1, a mixing ratio): scores that are scale invariant stay defined
        sc = rng.choice([1e-5, 1e-6, 1e-8])
        o = [round(rng.gauss(5, 4), 3) * sc for _ in range(n)]
        f = [x + round(rng.gauss(0.5, 2), 3) * sc for x in o]
    elif cls == "offset":
        # a forecast that is the observation plus a (nearly) constant offset that is not exact in binary: the spread of the
        # errors is tiny compared with their mean (numerically delicate for variance-type scores)
        c = rng.choice([0.1, 2.3, 100.1, -1000.3])
        scatter = 1e-3 if (abs(c) < 200 and rng.random() < 0.5) else 0.0
        o = [round(rng.gauss(5, 4), 1) for _ in range(n)]
        f = [x + c + scatter * rng.randint(-3, 3) for x in o]
    elif cls == "negative":
        o = [-abs(round(rng.gauss(5, 3), 2)) - 0.5 for _ in range(n)]
        f = [-abs(round(rng.gauss(5, 3), 2)) - 0.5 for _ in range(n)]
    elif cls == "zeros":
        o = [rng.choice([0.0, 0.0, 1.5]) for _ in range(n)]
        f = [rng.choice([0.0, 0.0, 2.0]) for _ in range(n)]
    elif cls == "single":
        o = [round(rng.gauss(3, 2), 2)]
        f = [round(rng.gauss(3, 2), 2)]
    elif cls == "perfect":
        o = [round(rng.gauss(5, 4), 2) for _ in range(n)]
        f = list(o)
    elif cls == "positive":
        o = [round(abs(rng.gauss(5, 3)) + 0.25, 2) for _ in range(n)]
        f = [round(abs(rng.gauss(5, 3)) + 0.25, 2) for _ in range(n)]
    else:
        o, f = [], []
    # sprinkle missing values
    nan_cls = "clean"
    if n and rng.random() < 0.5:
        nan_cls = "nans"
        for i in range(n):
            r = rng.random()
            if r < 0.1:
                o[i] = NAN
            elif r < 0.2:
                f[i] = NAN
    return cls, nan_cls, o, f


def valid_pairs(o, f):
    p = [(a, b) for a, b in zip(o, f) if a == a and b == b]
    return [a for a, _ in p], [b for _, b in p]


def rmsf_ok(o, f):
    return all(a != 0 and b / a > 0 for a, b in zip(o, f))


def compare(ctx, key, got, want, what, case, rel=1e-9):
    import numpy as np
    if got is np.ma.masked or got is None:
        got = NAN
    try:
        got = float(got)
    except (TypeError, ValueError):
        ctx.violation("non-scalar|" + key, "%s returned %r" % (what, got), case)
        return
    if want != want:
        ctx.count("undefined_checks")
        # (a denominator that is exactly zero in the reference may be zero only up to rounding in floating point, e.g. the sum
        #  of 1.91, 1.35, ..., -3.69: a quotient beyond 1e10 is that noise, not a score)
        if not (got != got or math.isinf(got) or abs(got) > 1e10):
            ctx.violation("undefined-gives-number|" + key, "%s = %r although the definition is undefined" % (what, got), case)
        return
    if abs(want) > 1e10:
        # a denominator that is zero up to rounding (e.g. a mean of -x and x): the quotient is numerical noise on both sides
        ctx.count("undefined_checks")
        if not (got != got or math.isinf(got) or abs(got) > 1e6):
            ctx.violation("undefined-gives-number|" + key, "%s = %r although the denominator vanishes (reference %r)" % (what, got, want), case)
        return
    # (absolute tolerance: a square root of a variance that is zero up to rounding amplifies 1e-17 to 1e-8)
    if not vutil.num_equal(got, want, rel, 2e-7):
        ctx.violation("definition|" + key, "%s = %r, definition gives %r" % (what, got, want), case)


def det_metrics():
    import verif.metric
    out = {}
    for name, cls in verif.metric.get_all():
        if name.lower() in NAMES and cls.is_valid():
            out[name.lower()] = cls
    return out


def agg_class(agg):
    return agg if not agg[0].isdigit() else "q" + agg


def run_vectors(desc, ctx):
    import numpy as np
    import verif.aggregator
    import verif.util
    mets = det_metrics()
    rng = random.Random("C05-%s-%s" % (desc["seed"], desc["k"]))
    for _ in range(desc["n"]):
        cls, ncls, o, f = gen_vector(rng)
        vo, vf = valid_pairs(o, f)
        for name, mcls in mets.items():
            ref = NAMES[name]
            m = mcls()
            aggs = [None]
            if m.supports_aggregator:
                aggs = [None] + rng.sample(AGGS, 4)
            if cls == "offset":
                aggs = [None]     # (a spread-type aggregator over squared errors of size 1e6 is pure rounding noise on both sides)
            for agg in aggs:
                if agg is not None:
                    m.aggregator = verif.aggregator.get(agg)
                if ref == "rmsf" and not rmsf_ok(vo, vf) and agg not in (None, "mean", "sum"):
                    continue    # undefined terms: an order statistic or a count may legitimately ignore them
                if ref == "cmae" and agg in ("change",):
                    continue
                case = {"metric": name, "agg": agg, "obs": o, "fcst": f}
                want = refmetrics.deterministic(ref, vo, vf, agg)
                sig = "%s|%s|%s-%s|vector" % (name, agg_class(agg or "mean"), cls, ncls)
                ctx.case(sig, (len(vo) >= 2 and want == want) or want != want,
                         {"metric": name, "agg": agg, "obs": o[:8], "fcst": f[:8], "definition": want})
                ao, af = np.array(o, float), np.array(f, float)
                try:
                    got = m.compute_from_obs_fcst(ao, af)
                except Exception as e:
                    ctx.violation("exception|%s|%s" % (name, type(e).__name__), "%s(agg=%s) raised %r on obs=%s fcst=%s"
                                  % (name, agg, e, o[:10], f[:10]), case)
                    continue
                ctx.count("vector_evals")
                # the pairs handed in are the caller's (Data hands out its cached arrays): a score is a function of them, it
                # does not rearrange or overwrite them (the next metric on the same slice would be computed on other pairs)
                if not (np.array_equal(ao, np.array(o, float), equal_nan=True) and np.array_equal(af, np.array(f, float), equal_nan=True)):
                    ctx.violation("pairs-altered-by-metric|" + name, "%s(agg=%s) changed the arrays it was given: obs %s -> %s, fcst %s -> %s"
                                  % (name, agg, o[:8], ao[:8].tolist(), f[:8], af[:8].tolist()), case)
                compare(ctx, name, got, want, "%s(agg=%s) on %d pairs (%s)" % (name, agg, len(vo), cls), case)
                # never better than perfect (default aggregator only)
                if agg is None and name in ERROR_SKILL and m.perfect_score is not None and want == want:
                    ctx.count("never_better_checks")
                    g = float(got)
                    if g == g and not math.isinf(g):
                        if m.orientation == -1 and g < m.perfect_score - 1e-9:
                            ctx.violation("better-than-perfect|" + name, "%s = %r < perfect %r" % (name, g, m.perfect_score), case)
                        if m.orientation == 1 and g > m.perfect_score + 1e-9:
                            ctx.violation("better-than-perfect|" + name, "%s = %r > perfect %r" % (name, g, m.perfect_score), case)
            # perfect forecast attains the documented perfect score
            if len(vo) >= 1 and (name in ERROR_SKILL or name in ATTAIN_ONLY):
                m2 = mcls()
                if m2.perfect_score is not None:
                    wantp = refmetrics.deterministic(ref, vo, vo)
                    if wantp == wantp:
                        gp = m2.compute_from_obs_fcst(np.array(vo, float), np.array(vo, float))
                        ctx.count("perfect_checks")
                        gp = NAN if gp is np.ma.masked else float(gp)
                        if not vutil.num_equal(gp, m2.perfect_score, 1e-9, 1e-9):
                            ctx.violation("perfect-score|" + name, "%s of a forecast identical to obs %s = %r, documented perfect score %r"
                                          % (name, vo[:8], gp, m2.perfect_score), {"metric": name, "obs": vo, "fcst": vo})
        # within (threshold based): percentage of |o-f| inside the event
        W = __import__("verif.metric", fromlist=["Within"]).Within()
        for b in ("below", "below=", "within", "=within="):
            t0, t1 = 1.0, 3.0
            ul, lc, uu, uc = attach.BIN_TABLE[b]
            iv = verif.util.get_intervals(b, np.array([t0, t1] if (ul and uu) else [t0]))[0]
            diffs = [abs(a - b_) for a, b_ in zip(vo, vf)]
            if not diffs:
                continue
            want = 100.0 * sum(1 for dd in diffs if attach.in_documented_event(dd, b, t0, t1)) / len(diffs)
            got = W.compute_from_obs_fcst(np.array(vo, float), np.array(vf, float), iv)
            ctx.count("vector_evals")
            ctx.case("within|%s|%s|vector" % (b, cls), len(vo) >= 2)
            compare(ctx, "within", got, want, "within(%s) on %d pairs" % (b, len(vo)), {"metric": "within", "obs": vo, "fcst": vf, "bin": b})


def run_data(desc, ctx):
    """Metric.compute on real Data objects and the csv output, incl. -x obs/fcst and FromField aggregators."""
    import numpy as np
    import verif.aggregator
    import verif.metric
    import verif.util
    mets = det_metrics()
    rng = random.Random("C05-data-%s-%s" % (desc["seed"], desc["k"]))
    for ci in range(desc["n"]):
        ds = gen.make_dataset(rng, n_inputs=rng.choice([1, 2]), miss=rng.choice([0.0, 0.1, 0.3]),
                              integerish=rng.random() < 0.3, vrange=rng.choice([(-10, 30), (1, 20), (0, 4)]))
        d = os.path.join(ctx.workdir, "d%d" % ci)
        os.makedirs(d, exist_ok=True)
        paths, _ = gen.materialize(ds, d, None)
        data = vutil.build_data(paths)
        F = len(ds["inputs"])
        fields = [("obs",), ("fcst",)]
        names = rng.sample(sorted(mets), 6)
        # an analyst's session: half of the datasets get all six scores along ONE axis from the one Data object (the requests
        # hit the same cached slices one after the other), the others a fresh axis per score
        session_axis = rng.choice(refmodel.ALL_AXES) if rng.random() < 0.5 else None
        if session_axis:
            ctx.count("datasets_scored_along_one_axis")
        for name in names:
            ref = NAMES[name]
            axis = session_axis or rng.choice(refmodel.ALL_AXES)
            m = mets[name]()
            agg = None
            if m.supports_aggregator and rng.random() < 0.5:
                agg = rng.choice(AGGS)
                m.aggregator = verif.aggregator.get(agg)
            if ref == "cmae" and agg == "change":
                agg = None
                m = mets[name]()
            for k in range(F):
                sl = refmodel.slices(ds, k, fields, axis)
                got = m.compute(data, k, vutil.vaxis(axis), None)
                for i, (lab, cases) in enumerate(sl):
                    o = [c[0] for c in cases]
                    f = [c[1] for c in cases]
                    if ref == "rmsf" and not rmsf_ok(o, f):
                        continue
                    want = refmetrics.deterministic(ref, o, f, agg)
                    ctx.count("data_evals")
                    ctx.case("%s|%s|%s|data" % (name, agg_class(agg or "mean"), axis), len(o) >= 2 or want != want)
                    compare(ctx, name, got[i], want, "%s(agg=%s).compute axis %s slice %d input %d" % (name, agg, axis, i, k),
                            {"ds": ds, "metric": name, "agg": agg, "axis": axis})
            # csv
            argv = paths + ["-m", name, "-x", axis, "-type", "csv"] + (["-agg", agg] if agg else [])
            if not m.supports_aggregator and rng.random() < 0.4:
                # "-m <metric> does not support -agg": the option is ignored (with a warning), the score is still its definition
                argv += ["-agg", rng.choice(["median", "max", "min", "0.9", "std"])]
                ctx.count("csv_with_unsupported_agg")
            if not verif.metric.get(name).supports_threshold and rng.random() < 0.3:
                # thresholds are "only used by some metrics": for the others the score must not change with -r / -b
                bt = rng.choice(list(attach.BIN_TABLE))
                nthr = rng.randint(2 if "within" in bt else 1, 4)       # a 'within' bin needs two thresholds to form an event
                argv += ["-r", ",".join(gen.fnum(t) for t in sorted(rng.sample([0.0, 1.0, 2.5, 5.0, 7.5, 10.0], nthr))), "-b", bt]
                ctx.count("csv_with_irrelevant_thresholds")
            o_ = runner.run_cli(argv)
            if o_.status != "ok":
                ctx.violation("csv-failed|%s" % name, str(o_.brief()), {"ds": ds, "argv": argv[F:]})
                continue
            h, rows = runner.parse_csv(o_.stdout)
            ncol = len(h) - F
            for k in range(F):
                sl = refmodel.slices(ds, k, fields, axis)
                if len(rows) != len(sl):
                    ctx.violation("csv-rows|%s" % name, "%d rows, %d slices" % (len(rows), len(sl)), {"ds": ds, "argv": argv[F:]})
                    break
                for i, (lab, cases) in enumerate(sl):
                    o = [c[0] for c in cases]
                    f = [c[1] for c in cases]
                    if ref == "rmsf" and not rmsf_ok(o, f):
                        continue
                    want = refmetrics.deterministic(ref, o, f, agg)
                    ctx.count("csv_values")
                    txt = rows[i][ncol + k]
                    if want != want:
                        if txt.lower() not in ("nan", "inf", "-inf"):
                            ctx.violation("undefined-gives-number|csv|" + name, "csv %s for an undefined %s" % (txt, name),
                                          {"ds": ds, "argv": argv[F:]})
                    elif not vutil.close_text_number(txt, want, 6):
                        ctx.violation("definition|csv|" + name, "-m %s -x %s%s row %d col %d: csv %s, definition %r"
                                      % (name, axis, " -agg %s" % agg if agg else "", i, k, txt, want), {"ds": ds, "argv": argv[F:]})
        # conditional axes: -x obs / -x fcst with thresholds
        for axis in ("obs", "fcst"):
            name = rng.choice(["mae", "bias", "rmse", "ef", "corr"])
            b = rng.choice(list(attach.BIN_TABLE))
            vals = sorted(set(v for c in ds["inputs"][0]["cells"].values() for v in (c.get("obs"), c.get("fcst")) if v is not None))
            if len(vals) < 3:
                continue
            ts = sorted(rng.sample(vals, 3))
            ul, lc, uu, uc = attach.BIN_TABLE[b]
            ivs = verif.util.get_intervals(b, np.array(ts))
            m = mets[name]()
            for k in range(F):
                cases = refmodel.valid_cases(ds, k, fields)
                for i, iv in enumerate(ivs):
                    got = m.compute(data, k, vutil.vaxis(axis), iv)[0]
                    sel = [c[3] for c in cases if attach.in_documented_event(
                        c[3][0] if axis == "obs" else c[3][1], b, ts[i], ts[i + 1] if (ul and uu) else None)]
                    want = refmetrics.deterministic(NAMES[name], [s[0] for s in sel], [s[1] for s in sel])
                    ctx.count("data_evals")
                    ctx.case("%s|cond-%s|%s|data" % (name, axis, b), True)
                    compare(ctx, "cond|" + name, got, want, "%s on -x %s bin %s thresholds %s event %d" % (name, axis, b, ts, i),
                            {"ds": ds, "metric": name, "axis": axis, "bin": b, "ts": ts})
        # obs / fcst statistics on the conditional axes: agg(field | axis-field inside the event)
        for fname in ("obs", "fcst"):
            for axis in ("obs", "fcst"):
                b = rng.choice(list(attach.BIN_TABLE))
                vals = sorted(set(v for c in ds["inputs"][0]["cells"].values() for v in (c.get("obs"), c.get("fcst")) if v is not None))
                if len(vals) < 3:
                    continue
                ts = sorted(rng.sample(vals, 3))
                ul, lc, uu, uc = attach.BIN_TABLE[b]
                ivs = verif.util.get_intervals(b, np.array(ts))
                agg = rng.choice(["mean", "median", "max", "count", "sum"])
                m = (verif.metric.Obs if fname == "obs" else verif.metric.Fcst)()
                m.aggregator = verif.aggregator.get(agg)
                flds = [(fname,)] + ([(axis,)] if axis != fname else [])
                for k in range(F):
                    cases = refmodel.valid_cases(ds, k, flds)
                    for i, iv in enumerate(ivs):
                        sel = [c[3][0] for c in cases if attach.in_documented_event(c[3][-1], b, ts[i], ts[i + 1] if (ul and uu) else None)]
                        try:
                            got = m.compute(data, k, vutil.vaxis(axis), iv)[0]
                        except Exception as e:
                            ctx.violation("exception|%s-on-%s|%s|%s" % (fname, axis, type(e).__name__, "empty-event" if not sel else "nonempty"),
                                          "-m %s -agg %s -x %s bin %s thresholds %s event %d (%d cases in the event) raised %r"
                                          % (fname, agg, axis, b, ts, i, len(sel), e), {"ds": ds, "metric": fname, "axis": axis, "agg": agg})
                            continue
                        ctx.count("data_evals")
                        ctx.case("%s|cond-%s|%s|data" % (fname, axis, agg), True)
                        if not sel:
                            g = float(np.ma.filled(got, np.nan)) if got is not np.ma.masked else NAN
                            if not (g != g or (agg in ("count", "sum") and g == 0)):
                                ctx.violation("definition|cond-empty|%s" % fname, "-m %s -x %s: empty event gives %r" % (fname, axis, g), {"ds": ds})
                            continue
                        want = refmetrics.aggregate(agg, sel)
                        compare(ctx, "cond|%s-on-%s" % (fname, axis), got, want,
                                "-m %s -agg %s -x %s bin %s thresholds %s event %d input %d" % (fname, agg, axis, b, ts, i, k),
                                {"ds": ds, "metric": fname, "axis": axis, "bin": b, "ts": ts, "agg": agg})
        # FromField metrics: obs / fcst statistics with every aggregator (obs does NOT require a forecast)
        for fname, cls in (("obs", verif.metric.Obs), ("fcst", verif.metric.Fcst)):
            agg = rng.choice(AGGS)
            axis = rng.choice(refmodel.ALL_AXES)
            m = cls()
            m.aggregator = verif.aggregator.get(agg)
            for k in range(F):
                sl = refmodel.slices(ds, k, [(fname,)], axis)
                got = m.compute(data, k, vutil.vaxis(axis), None)
                for i, (lab, cases) in enumerate(sl):
                    xs = [c[0] for c in cases]
                    want = refmetrics.aggregate(agg, xs) if xs else (0.0 if agg == "count" else NAN)
                    ctx.count("data_evals")
                    ctx.case("%s|%s|%s|data" % (fname, agg_class(agg), axis), len(xs) >= 2)
                    if not xs and agg == "count":
                        g = float(got[i])
                        if not (g != g or g == 0):
                            ctx.violation("definition|count-empty", "count of an empty slice = %r" % g, {"ds": ds})
                        continue
                    compare(ctx, fname, got[i], want, "-m %s -agg %s axis %s slice %d" % (fname, agg, axis, i),
                            {"ds": ds, "metric": fname, "agg": agg, "axis": axis})


def run_shard(desc, ctx):
    if desc["part"] == "vectors":
        run_vectors(desc, ctx)
    else:
        run_data(desc, ctx)


def replay(case, ctx):
    import numpy as np
    import verif.aggregator
    if case and "obs" in case and case.get("metric") in NAMES:
        mets = det_metrics()
        m = mets[case["metric"]]()
        if case.get("agg"):
            m.aggregator = verif.aggregator.get(case["agg"])
        o = [NAN if v in (None, "nan") else float(v) for v in case["obs"]]
        f = [NAN if v in (None, "nan") else float(v) for v in case["fcst"]]
        vo, vf = valid_pairs(o, f)
        want = refmetrics.deterministic(NAMES[case["metric"]], vo, vf, case.get("agg"))
        ctx.case("replay", True)
        got = m.compute_from_obs_fcst(np.array(o, float), np.array(f, float))
        compare(ctx, case["metric"], got, want, "replay %s" % case["metric"], case)
        if m.perfect_score is not None and vo and case["metric"] in ERROR_SKILL + ATTAIN_ONLY:
            wantp = refmetrics.deterministic(NAMES[case["metric"]], vo, vo)
            gp = float(mets[case["metric"]]().compute_from_obs_fcst(np.array(vo), np.array(vo)))
            if wantp == wantp and not vutil.num_equal(gp, m.perfect_score, 1e-9, 1e-9):
                ctx.violation("perfect-score|" + case["metric"], "replay: perfect forecast gives %r" % gp, case)
    else:
        run_vectors({"seed": 0, "k": 0, "n": 30}, ctx)
