"""C15 Aggregators and -T pre-aggregation compute the documented statistics."""
import itertools
import math
import os
import random

from vmon import gen, refmetrics, refmodel, runner, vutil

RULE = ("(A) verif.aggregator.get(name)(array, axis) for all 14 named aggregators and quantile levels on arrays of 1-4 "
        "dimensions (sizes 1-5, ties, negatives, constants), every axis and axis=None, compared with a pure-Python "
        "statistic of each lane; quantile levels must give min/median/max at 0/0.5/1, be monotone in the level and lie "
        "in the data range; iqr must equal q0.75-q0.25. (B) -T: Data built with dim_agg_length h (1..200), every -Tagg, "
        "-Tx leadtime|time, on text and NetCDF inputs with irregular grids; every cell of get_scores([obs,fcst]) "
        "(and ensemble members, threshold-from-ensemble, quantile-from-ensemble) is compared with the aggregate over the "
        "trailing window (l-h, l] of the same series in the same file (float32 tolerance); obs and fcst must be treated "
        "identically; `-T h -Tagg f -Tx a -m mae -type csv` equals the reference. signature = (aggregator, ndim, axis) / "
        "(window class, Tagg, Tx, field, format); non-trivial (B) = some window covers >= 2 and fewer than all entries.")
RULE += " " + "Every input's ensemble fields; same file names in different directories; twin lead-time grids; rapid-update cycles (sub-hourly initialisation times) with -Tx time; every quantile level compared with the linear-interpolation sample quantile."
RULE += " " + 'Rounds 9-10: the -T/-Tx/-Tagg/-m/-x/-type option groups are shuffled.'
ASSUMPTIONS = ["std/variance are population statistics (NumPy default), as verif documents no Bessel correction",
               "pre-aggregated values are float32 (verif stores them so): relative tolerance 2e-6",
               "a window containing a missing value is missing for aggregators that propagate NaN"]
REQUIRED_COUNTERS = ["agg_lanes", "quantile_law_checks", "T_cells", "T_csv_values", "T_members", "T_obs_fcst_symmetry"]
ANCHOR_FUNCS = ["data.preaggregate_leadtime", "data.preaggregate_time", "Data.preaggregate"]

NAN = float("nan")


def plan(tier, seed):
    na = 40 if tier == "quick" else 1500
    nt = 30 if tier == "quick" else 200
    shards = [{"part": "agg", "seed": seed, "k": k, "n": na} for k in range(6)]
    shards += [{"part": "T", "seed": seed, "k": k, "n": nt} for k in range(10)]
    return shards


# ------------------------------------------------------------------ (A) aggregators

def rand_array(rng):
    import numpy as np
    nd = rng.randint(1, 4)
    shape = [rng.randint(1, 5) for _ in range(nd)]
    kind = rng.choice(["normal", "ties", "negative", "constant"])
    n = 1
    for s in shape:
        n *= s
    if kind == "normal":
        vals = [round(rng.gauss(2, 5), 3) for _ in range(n)]
    elif kind == "ties":
        vals = [float(rng.randint(-2, 2)) for _ in range(n)]
    elif kind == "negative":
        vals = [-abs(round(rng.gauss(3, 2), 2)) for _ in range(n)]
    else:
        vals = [1.5] * n
    return np.array(vals, float).reshape(shape), kind


def lanes(arr, axis):
    """[(index-in-result, list of values along axis)]"""
    import numpy as np
    if axis is None:
        return [((), arr.flatten().tolist())]
    moved = np.moveaxis(arr, axis, -1)
    out = []
    for idx in np.ndindex(moved.shape[:-1]):
        out.append((idx, moved[idx].tolist()))
    return out


def run_agg(desc, ctx):
    import numpy as np
    import verif.aggregator
    rng = random.Random("C15-agg-%s-%s" % (desc["seed"], desc["k"]))
    names = refmetrics.AGG_NAMES
    for _ in range(desc["n"]):
        arr, kind = rand_array(rng)
        for axis in [None] + list(range(arr.ndim)):
            for name in names:
                agg = verif.aggregator.get(name)
                a = arr.copy()
                if name == "count" and rng.random() < 0.5:
                    a = a.copy()
                    a.flat[rng.randrange(a.size)] = np.nan
                keep = a.copy()
                try:
                    res = agg(a, axis=axis)
                except Exception as e:
                    ctx.violation("agg-exception|%s" % name, "%s(shape %s, axis=%s) raised %r" % (name, a.shape, axis, e),
                                  {"name": name, "array": a.tolist(), "axis": axis})
                    continue
                if not np.array_equal(np.isnan(a), np.isnan(keep)) or not np.allclose(np.nan_to_num(a), np.nan_to_num(keep)):
                    ctx.violation("agg-mutates-argument|%s" % name, "aggregator changed its input", {"name": name})
                res = np.asarray(res, float)
                ln = lanes(a, axis)
                want_shape = () if axis is None else tuple(s for i, s in enumerate(a.shape) if i != axis)
                if res.shape != want_shape:
                    ctx.violation("agg-shape|%s" % name, "%s(shape %s, axis=%s) -> shape %s, expected %s"
                                  % (name, a.shape, axis, res.shape, want_shape), {"name": name, "array": a.tolist(), "axis": axis})
                    continue
                ok = True
                for idx, vals in ln:
                    ctx.count("agg_lanes")
                    got = float(res[idx]) if idx != () else float(res)
                    if name == "iqr":
                        q75 = float(np.asarray(verif.aggregator.get("0.75")(np.array(vals)), float))
                        q25 = float(np.asarray(verif.aggregator.get("0.25")(np.array(vals)), float))
                        want = q75 - q25
                    else:
                        want = refmetrics.aggregate(name, vals)
                    if not vutil.num_equal(got, want, 1e-9, 1e-9):
                        ok = False
                        ctx.violation("agg-value|%s" % name, "%s of %s (axis=%s lane %s) = %r, statistic is %r"
                                      % (name, vals, axis, idx, got, want), {"name": name, "array": a.tolist(), "axis": axis})
                        break
                ctx.case("%s|nd%d|axis%s|%s" % (name, a.ndim, axis, kind), a.shape[axis] >= 2 if axis is not None else a.size >= 2,
                         {"aggregator": name, "shape": list(a.shape), "axis": axis})
            # quantile laws
            levels = [0.0, 0.005, 0.025, 0.1, 0.25, 0.333, 0.5, 0.75, 0.9, 0.975, 0.995, 1.0]
            prev = None
            for q in levels:
                res = np.asarray(verif.aggregator.get(gen.fnum(q))(arr.copy(), axis=axis), float)
                for idx, vals in lanes(arr, axis):
                    ctx.count("quantile_law_checks")
                    got = float(res[idx]) if idx != () else float(res)
                    lo, hi = min(vals), max(vals)
                    bad = None
                    if not (lo - 1e-9 <= got <= hi + 1e-9):
                        bad = "outside the data range [%r,%r]" % (lo, hi)
                    if q == 0.0 and not vutil.num_equal(got, lo):
                        bad = "level 0 is not the minimum %r" % lo
                    if q == 1.0 and not vutil.num_equal(got, hi):
                        bad = "level 1 is not the maximum %r" % hi
                    if q == 0.5 and not vutil.num_equal(got, refmetrics.median(vals), 1e-9, 1e-9):
                        bad = "level 0.5 is not the median %r" % refmetrics.median(vals)
                    wq = refmetrics.quantile_linear(vals, q)
                    if bad is None and not vutil.num_equal(got, wq, 1e-9, 1e-9):
                        bad = "the level-%s sample quantile (linear interpolation) is %r" % (q, wq)
                    if bad:
                        ctx.violation("quantile-law", "quantile %s of %s = %r: %s" % (q, vals, got, bad),
                                      {"name": gen.fnum(q), "array": arr.tolist(), "axis": axis})
                if prev is not None and np.any(res < prev - 1e-9):
                    ctx.violation("quantile-not-monotone", "quantile aggregator decreases with the level (%s)" % q,
                                  {"array": arr.tolist(), "axis": axis})
                prev = res
            ctx.case("quantile|nd%d|axis%s|%s" % (arr.ndim, axis, kind), True)
    # names: unknown aggregator -> error exit; level outside [0,1] -> error exit
    for bad in ("average", "1.5", "-0.1"):
        try:
            verif.aggregator.get(bad)
            ctx.violation("agg-bad-name-accepted", "aggregator.get(%r) was accepted" % bad, {"name": bad})
        except SystemExit:
            pass
        except Exception as e:
            ctx.violation("agg-bad-name-traceback", "aggregator.get(%r) raised %r" % (bad, e), {"name": bad})


# ------------------------------------------------------------------ (B) -T

TAGGS = ["mean", "sum", "min", "max", "median", "std", "variance", "range", "iqr", "meanabs", "absmean", "change",
         "abschange", "0.5", "0.9"]


def series_window_value(inp, field, t, l, s, h, tx, agg):
    """Aggregate of input's own series over the trailing window; None if any member of the window is missing."""
    grid = inp["leadtimes"] if tx == "leadtime" else inp["times"]
    grid_sorted = sorted(grid)
    cur = l if tx == "leadtime" else t
    scale = 1.0 if tx == "leadtime" else 3600.0
    win = [g for g in grid_sorted if cur - h * scale < g <= cur]
    vals = []
    for g in win:
        key = gen.ck(t if tx == "leadtime" else g, g if tx == "leadtime" else l, s)
        vals.append(refmodel.raw_value(inp, inp["cells"].get(key), field))
    if agg in ("change", "abschange"):
        # only the two ends of the window enter the statistic
        if vals[0] is None or vals[-1] is None:
            return None, len(win)
        v = vals[-1] - vals[0]
        return (abs(v) if agg == "abschange" else v), len(win)
    if any(v is None for v in vals):
        return None, len(win)
    return refmetrics.aggregate(agg, vals), len(win)


def run_T(desc, ctx):
    import numpy as np
    import verif.aggregator
    import verif.axis
    import verif.field
    rng = random.Random("C15-T-%s-%s" % (desc["seed"], desc["k"]))
    for ci in range(desc["n"]):
        ens = rng.random() < 0.4
        fmt = rng.choice(["text", "text", "nc"])
        pool = rng.choice([[0, 1, 2, 3, 4, 5, 6], [0, 3, 6, 12, 18, 24, 48], [0, 1, 3, 6, 12, 13, 36, 72, 240], [0, 6, 12, 18, 24, 30, 36]])
        hours = rng.choice([None, [0], [0, 12]])
        twin_grids = rng.random() < 0.25
        subhour = rng.random() < 0.3
        sub_times = None
        if subhour:
            # a rapid-update cycle: runs 15-60 minutes apart, off the whole hour; windows of 1-3 h cut between them
            t_ = rng.choice(gen.BOUNDARY_TIMES) + rng.choice([0, 900, 1200, 2700])
            sub_times = [t_]
            for _s in range(rng.randint(4, 8)):
                t_ += rng.choice([900, 1200, 1800, 2700, 3600, 4500])
                sub_times.append(t_)
        ds = gen.make_dataset(rng, n_inputs=2 if twin_grids else rng.choice([1, 2]), fmt=fmt, ens=ens, members=rng.randint(1, 4),
                              miss=rng.choice([0.0, 0.1, 0.2]), sparse=0.0, leadtime_pool=pool, max_l=5, max_t=6 if subhour else 4, vrange=(1, 12),
                              hours=hours, some_without_obs=rng.random() < 0.2, same_dims=twin_grids,
                              times=sub_times)
        if twin_grids:
            # two grids of the same length with the same first and last lead time but another value in between
            i1 = ds["inputs"][1]
            inner = i1["leadtimes"][1:-1]
            free = [x for x in pool if x not in i1["leadtimes"] and x not in ds["inputs"][0]["leadtimes"]
                    and i1["leadtimes"][0] < x < i1["leadtimes"][-1]]
            if inner and free:
                gen.rename_leadtime(i1, rng.choice(inner), rng.choice(free))
                ctx.count("T_grids_same_ends_other_interior")
        tx = rng.choice(["leadtime", "leadtime", "time"]) if not subhour else "time"
        agg = rng.choice(TAGGS + ["sum", "sum", "mean", "mean", "max"])
        if subhour:
            h = rng.choice([1, 1, 2, 3])
            ctx.count("T_subhourly_time_cases")
        elif tx == "leadtime":
            h = rng.choice([1, 2, 3, 6, 7, 12, 24, 25, 48, 200])
        else:
            h = rng.choice([1, 12, 24, 25, 48, 72, 200])
        d = os.path.join(ctx.workdir, "T%d" % ci)
        os.makedirs(d, exist_ok=True)
        paths, _ = gen.materialize(ds, d, None)      # stored ascending (well-formed files)
        if len(paths) >= 2 and len(set(os.path.splitext(p_)[1] for p_ in paths)) == 1 and rng.random() < 0.4:
            # experiments usually keep the same file name in different directories
            import shutil
            newp = []
            for i_, p_ in enumerate(paths):
                sub = os.path.join(d, "exp%d" % i_)
                os.makedirs(sub, exist_ok=True)
                q_ = os.path.join(sub, "fcst" + os.path.splitext(p_)[1])
                shutil.copy(p_, q_)
                newp.append(q_)
            paths = newp
            ctx.count("T_same_basename_families")
        case = {"ds": ds, "h": h, "tx": tx, "agg": agg}
        try:
            data = vutil.build_data(paths, dim_agg_length=h, dim_agg_axis=verif.axis.get(tx),
                                    dim_agg_method=verif.aggregator.get(agg))
        except SystemExit:
            ctx.violation("T-build-failed", "Data(...) exited", case)
            continue
        times, leads, locs = refmodel.common_dims(ds)
        F = len(ds["inputs"])
        tol = 3e-6
        # expected per input/field
        fields = [("obs",), ("fcst",)]
        exp = {}
        wsizes = set()
        for fld in fields + ([("ens", 0)] if ens else []):
            for k, inp in enumerate(ds["inputs"]):
                for t in times:
                    for l in leads:
                        for s in locs:
                            if fld == ("obs",):
                                # the shared observation: every file that has obs must give a value
                                # (each file's observations are aggregated over that file's own grid; an input
                                #  without obs borrows the first file that has them)
                                v = None
                                own = None
                                okv = True
                                for j2, inp2 in enumerate(ds["inputs"]):
                                    if "obs" not in inp2["has"]:
                                        continue
                                    v2, n = series_window_value(inp2, fld, t, l, s[0], h, tx, agg)
                                    wsizes.add((n, len(inp2["leadtimes"] if tx == "leadtime" else inp2["times"])))
                                    if v2 is None or v2 != v2:
                                        okv = False
                                    elif v is None:
                                        v = v2
                                    if j2 == k:
                                        own = v2
                                if "obs" in inp["has"]:
                                    v = own
                                exp[(fld, k, t, l, s[0])] = v if okv else None
                            else:
                                v, n = series_window_value(inp, fld, t, l, s[0], h, tx, agg)
                                wsizes.add((n, len(inp["leadtimes"] if tx == "leadtime" else inp["times"])))
                                exp[(fld, k, t, l, s[0])] = v
        nontrivial = any(2 <= n < tot for n, tot in wsizes)
        wclass = "w" + ("1" if all(n <= 1 for n, _ in wsizes) else "all" if all(n >= tot for n, tot in wsizes) else "part")
        for k in range(F):
            got_o, got_f = data.get_scores([verif.field.Obs(), verif.field.Fcst()], k)
            got_o = np.array(got_o)
            got_f = np.array(got_f)
            for a, t in enumerate(times):
                for b, l in enumerate(leads):
                    for c, s in enumerate(locs):
                        eo = exp[(("obs",), k, t, l, s[0])]
                        ef_all = [exp[(("fcst",), j, t, l, s[0])] for j in range(F)]
                        valid = eo is not None and all(x is not None and x == x for x in ef_all) and eo == eo
                        ctx.count("T_cells")
                        go, gf = float(got_o[a, b, c]), float(got_f[a, b, c])
                        if not valid:
                            if go == go or gf == gf:
                                # NaN-producing aggregates (e.g. std of a window with NaN) are equally 'missing'
                                ctx.violation("T-missing-window-used|%s" % tx,
                                              "-T %d -Tagg %s -Tx %s: cell (%s,%s,%s) input %d has a missing value in its window "
                                              "(or in another input's) but verif returned obs=%r fcst=%r" % (h, agg, tx, t, l, s[0], k, go, gf), case)
                            continue
                        ef = ef_all[k]
                        if not vutil.num_equal(go, eo, tol, 1e-5) or not vutil.num_equal(gf, ef, tol, 1e-5):
                            ctx.violation("T-window-value|%s|%s" % (tx, "obs" if not vutil.num_equal(go, eo, tol, 1e-5) else "fcst"),
                                          "-T %d -Tagg %s -Tx %s: cell (%s,%s,%s) input %d: verif obs=%r fcst=%r, trailing-window "
                                          "aggregate obs=%r fcst=%r" % (h, agg, tx, t, l, s[0], k, go, gf, eo, ef), case)
            ctx.case("%s|%s|%s|obsfcst|%s" % (wclass, agg, tx, fmt), nontrivial,
                     {"inputs": gen.ds_summary(ds), "T": h, "Tagg": agg, "Tx": tx})
        # obs and fcst are treated identically: a file whose fcst column equals its obs column gives equal arrays
        inp0 = ds["inputs"][0]
        if "obs" in inp0["has"] and F == 1:
            twin = dict(inp0)
            twin["cells"] = {kk: dict(c, fcst=c.get("obs")) for kk, c in inp0["cells"].items()}
            twin["name"] = "twin." + ("nc" if fmt == "nc" else "txt")
            twin["style"] = {}
            p = gen.write_input(twin, d, None)
            dt = vutil.build_data([p], dim_agg_length=h, dim_agg_axis=verif.axis.get(tx), dim_agg_method=verif.aggregator.get(agg))
            o2, f2 = dt.get_scores([verif.field.Obs(), verif.field.Fcst()], 0)
            ctx.count("T_obs_fcst_symmetry")
            if not np.array_equal(np.isnan(o2), np.isnan(f2)) or not np.allclose(np.nan_to_num(o2), np.nan_to_num(f2), rtol=1e-6):
                ctx.violation("T-obs-fcst-asymmetry", "identical obs and fcst columns pre-aggregate differently (-T %d -Tagg %s -Tx %s)"
                              % (h, agg, tx), case)
        else:
            ctx.count("T_obs_fcst_symmetry", 0)
        # NetCDF files may store their dimension entries in any order (C02): the window must be chosen by value
        if fmt == "nc" and F == 1 and "obs" in inp0["has"]:
            sh = dict(inp0)
            order = {"time": list(range(len(inp0["times"]))), "leadtime": list(range(len(inp0["leadtimes"]))),
                     "location": list(range(len(inp0["locs"])))}
            key = "leadtime" if tx == "leadtime" else "time"
            order[key] = order[key][::-1]
            st0 = dict(inp0["style"])
            st0["order"] = order
            sh["style"] = st0
            sh["name"] = "perm.nc"
            p2 = gen.write_input(sh, d, None)
            cmd = ["-m", "mae", "-x", "leadtime", "-type", "csv", "-T", str(h), "-Tagg", agg, "-Tx", tx]
            o1 = runner.run_cli([paths[0]] + cmd)
            o2 = runner.run_cli([p2] + cmd)
            ctx.count("T_permuted_nc")
            r1 = runner.parse_csv(o1.stdout)[1]
            r2 = runner.parse_csv(o2.stdout)[1]
            if o1.status != o2.status or [r[1:] for r in r1] != [r[1:] for r in r2]:
                if len(order[key]) > 1:
                    ctx.violation("T-window-chosen-by-stored-position|%s" % tx,
                                  "-T %d -Tagg %s -Tx %s: a NetCDF file whose %s entries are stored in descending order gives different "
                                  "scores than the same data stored ascending:\n%s\nvs\n%s" % (h, agg, tx, key, r1, r2), case)
        # ensemble members and probabilities/quantiles derived from the ensemble
        for k in (range(F) if (ens and all(i["members"] == ds["inputs"][0]["members"] for i in ds["inputs"])) else []):
            inp = ds["inputs"][0]
            M = inp["members"]
            got = np.array(data.get_scores(verif.field.Ensemble(0), k))
            thr = 6.0
            got_p = np.array(data.get_scores(verif.field.Threshold(thr), k))
            got_q = np.array(data.get_scores(verif.field.Quantile(0.5), k))
            for a, t in enumerate(times):
                for b, l in enumerate(leads):
                    for c, s in enumerate(locs):
                        per_input = []
                        for inp2 in ds["inputs"]:
                            mv = [series_window_value(inp2, ("ens", m), t, l, s[0], h, tx, agg)[0] for m in range(M)]
                            per_input.append(mv)
                        ctx.count("T_members")
                        e0 = [pi[0] for pi in per_input]
                        g = float(got[a, b, c])
                        if all(x is not None and x == x for x in e0):
                            if not vutil.num_equal(g, e0[k], tol, 1e-5):
                                ctx.violation("T-window-value|%s|member" % tx, "-T %d -Tagg %s -Tx %s member 0 cell (%s,%s,%s): %r vs %r"
                                              % (h, agg, tx, t, l, s[0], g, e0[k]), case)
                        # probability = fraction of (pre-aggregated) present members <= threshold, for every input
                        mine = [x for x in per_input[k] if x is not None and x == x]
                        gp = float(got_p[a, b, c])
                        others_ok = all(any(x is not None and x == x for x in pi) for pi in per_input)
                        if mine and others_ok:
                            wantp = sum(1 for x in mine if float(np.float32(x)) <= thr) / float(len(mine))
                            near = any(abs(x - thr) < 1e-4 for x in mine)
                            if not near and not vutil.num_equal(gp, wantp, 1e-5, 1e-6):
                                ctx.violation("T-ensemble-probability|%s" % tx,
                                              "-T %d -Tagg %s: P(X<=%g) cell (%s,%s,%s) = %r, pre-aggregated members %s give %r"
                                              % (h, agg, thr, t, l, s[0], gp, mine, wantp), case)
                        gq = float(got_q[a, b, c])
                        full = [pi for pi in per_input if all(x is not None and x == x for x in pi)]
                        if len(full) == len(per_input) and gq == gq:
                            lo, hi = min(per_input[k]), max(per_input[k])
                            pad = 1e-4 * max(1.0, abs(lo), abs(hi))
                            if not (lo - pad <= gq <= hi + pad):
                                ctx.violation("T-ensemble-quantile-ignores-T|%s" % tx,
                                              "-T %d -Tagg %s -Tx %s: median from the ensemble at cell (%s,%s,%s) = %r lies outside the range "
                                              "[%r, %r] of the pre-aggregated members" % (h, agg, tx, t, l, s[0], gq, lo, hi), case)
            ctx.case("%s|%s|%s|ensemble|%s" % (wclass, agg, tx, fmt), nontrivial)
        if not ens:
            ctx.count("T_members", 0)
        # CLI
        if all("fcst" in i["has"] for i in ds["inputs"]):
            groups_ = [["-T", str(h)], ["-m", "mae"], ["-Tx", tx], ["-type", "csv"], ["-Tagg", agg], ["-x", "leadtime"]]
            rng.shuffle(groups_)          # the options in any order (-Tagg / -Tx before or after -T)
            argv = paths + [x_ for g_ in groups_ for x_ in g_]
            o = runner.run_cli(argv)
            if o.status != "ok":
                ctx.violation("T-cli-failed", str(o.brief()), case)
                continue
            hh, rows = runner.parse_csv(o.stdout)
            for k in range(F):
                for b, l in enumerate(leads):
                    errs = []
                    for t in times:
                        for s in locs:
                            eo = exp[(("obs",), k, t, l, s[0])]
                            efs = [exp[(("fcst",), j, t, l, s[0])] for j in range(F)]
                            if eo is None or eo != eo or any(x is None or x != x for x in efs):
                                continue
                            errs.append(abs(float(np.float32(eo)) - float(np.float32(efs[k]))))
                    want = refmetrics.mean(errs) if errs else NAN
                    ctx.count("T_csv_values")
                    txt = rows[b][1 + k] if b < len(rows) else "<missing row>"
                    okc = vutil.close_text_number(txt, want, 6) or (want == want and vutil.num_equal(float(txt), want, 1e-5, 1e-5))
                    if not okc:
                        ctx.violation("T-cli-value|%s" % tx, "%s: lead time %s column %d = %s, reference %r"
                                      % (" ".join(a for a in argv if a not in paths), l, k, txt, want), case)
        else:
            ctx.count("T_csv_values", 0)


def run_shard(desc, ctx):
    if desc["part"] == "agg":
        run_agg(desc, ctx)
    else:
        run_T(desc, ctx)


def replay(case, ctx):
    import numpy as np
    import verif.aggregator
    if case and "array" in case and "name" in case:
        a = np.array(case["array"], float)
        res = np.asarray(verif.aggregator.get(case["name"])(a, axis=case.get("axis")), float)
        ctx.case("replay", True)
        for idx, vals in lanes(a, case.get("axis")):
            got = float(res[idx]) if idx != () else float(res)
            try:
                want = refmetrics.aggregate(case["name"], vals)
            except KeyError:
                continue
            if case["name"] not in ("iqr",) and not case["name"][0].isdigit() and not vutil.num_equal(got, want, 1e-9, 1e-9):
                ctx.violation("agg-value|%s" % case["name"], "replay: %r vs %r" % (got, want), case)
    else:
        run_agg({"seed": 0, "k": 0, "n": 20}, ctx)
        run_T({"seed": 0, "k": 0, "n": 4}, ctx)
