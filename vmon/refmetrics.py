"""Textbook definitions of the scores, written independently of verif (pure Python, math.fsum).

Every function returns NaN where the definition is undefined (no data, zero denominator, log of zero).
"""
import math

NAN = float("nan")


def _safe(f):
    def g(*a, **k):
        try:
            v = f(*a, **k)
        except (ZeroDivisionError, ValueError, OverflowError):
            return NAN
        if isinstance(v, complex):
            return NAN
        if v != v or v in (float("inf"), float("-inf")):
            return NAN
        return v
    g.__name__ = f.__name__
    return g


# ------------------------------------------------------------------------------ 2x2 tables (C06)
# a = hits, b = false alarms, c = misses, d = correct rejections

def _ln(x):
    if x <= 0:
        raise ValueError("log")
    return math.log(x)


CATEGORICAL = {}


def cat(name):
    def deco(f):
        CATEGORICAL[name] = _safe(f)
        return f
    return deco


@cat("a")
def _a(a, b, c, d):
    return a / (a + b + c + d)


@cat("b")
def _b(a, b, c, d):
    return b / (a + b + c + d)


@cat("c")
def _c(a, b, c, d):
    return c / (a + b + c + d)


@cat("d")
def _d(a, b, c, d):
    return d / (a + b + c + d)


@cat("n")
def _n(a, b, c, d):
    if a + b + c + d == 0:
        raise ZeroDivisionError
    return a + b + c + d


@cat("ets")
def _ets(a, b, c, d):
    n = a + b + c + d
    ar = (a + b) * (a + c) / n
    return (a - ar) / (a + b + c - ar)


@cat("fcstrate")
def _fcstrate(a, b, c, d):
    return (a + b) / (a + b + c + d)


@cat("baserate")
def _baserate(a, b, c, d):
    return (a + c) / (a + b + c + d)


@cat("dscore")
def _dscore(a, b, c, d):
    # Mason & Weigel (2009) two-alternative forced choice for dichotomous obs and forecasts
    return (a * d + 0.5 * (a * b + c * d)) / ((a + c) * (b + d))


@cat("threat")
def _threat(a, b, c, d):
    return a / (a + b + c)


@cat("pc")
def _pc(a, b, c, d):
    return (a + d) / (a + b + c + d)


@cat("edi")
def _edi(a, b, c, d):
    F = b / (b + d)
    H = a / (a + c)
    return (_ln(F) - _ln(H)) / (_ln(F) + _ln(H))


@cat("sedi")
def _sedi(a, b, c, d):
    F = b / (b + d)
    H = a / (a + c)
    num = _ln(F) - _ln(H) - _ln(1 - F) + _ln(1 - H)
    den = _ln(F) + _ln(H) + _ln(1 - F) + _ln(1 - H)
    return num / den


@cat("eds")
def _eds(a, b, c, d):
    n = a + b + c + d
    return 2 * _ln((a + c) / n) / _ln(a / n) - 1


@cat("seds")
def _seds(a, b, c, d):
    n = a + b + c + d
    return (_ln((a + b) / n) + _ln((a + c) / n)) / _ln(a / n) - 1


@cat("biasfreq")
def _biasfreq(a, b, c, d):
    return (a + b) / (a + c)


@cat("hss")
def _hss(a, b, c, d):
    return 2.0 * (a * d - b * c) / ((a + c) * (c + d) + (a + b) * (b + d))


@cat("or")
def _or(a, b, c, d):
    return (a * d) / (b * c)


@cat("lor")
def _lor(a, b, c, d):
    return _ln((a * d) / (b * c))


@cat("yulesq")
def _yulesq(a, b, c, d):
    return (a * d - b * c) / (a * d + b * c)


@cat("kss")
def _kss(a, b, c, d):
    return (a * d - b * c) / ((a + c) * (b + d))


@cat("hit")
def _hit(a, b, c, d):
    return a / (a + c)


@cat("miss")
def _miss(a, b, c, d):
    return c / (a + c)


@cat("fa")
def _fa(a, b, c, d):
    return b / (b + d)


@cat("far")
def _far(a, b, c, d):
    return b / (a + b)


def categorical(name, a, b, c, d):
    a, b, c, d = float(a), float(b), float(c), float(d)
    if a + b + c + d == 0:
        return NAN
    return CATEGORICAL[name](a, b, c, d)


# ------------------------------------------------------------------------------ statistics

def mean(xs):
    xs = list(xs)
    if not xs:
        return NAN
    return math.fsum(xs) / len(xs)


def pvar(xs):
    xs = list(xs)
    if not xs:
        return NAN
    m = mean(xs)
    return math.fsum((x - m) ** 2 for x in xs) / len(xs)


def pstd(xs):
    v = pvar(xs)
    return math.sqrt(v) if v == v else NAN


def median(xs):
    s = sorted(xs)
    n = len(s)
    if n == 0:
        return NAN
    return s[n // 2] if n % 2 else 0.5 * (s[n // 2 - 1] + s[n // 2])


def quantile_linear(xs, q):
    """Linear-interpolation (type 7) sample quantile."""
    s = sorted(xs)
    n = len(s)
    if n == 0:
        return NAN
    h = (n - 1) * q
    lo = int(math.floor(h))
    hi = min(lo + 1, n - 1)
    return s[lo] + (h - lo) * (s[hi] - s[lo])


def midranks(xs):
    order = sorted(range(len(xs)), key=lambda i: xs[i])
    r = [0.0] * len(xs)
    i = 0
    while i < len(order):
        j = i
        while j + 1 < len(order) and xs[order[j + 1]] == xs[order[i]]:
            j += 1
        rank = 0.5 * (i + j) + 1
        for k in range(i, j + 1):
            r[order[k]] = rank
        i = j + 1
    return r


@_safe
def pearson(x, y):
    n = len(x)
    if n < 2:
        return NAN
    mx, my = mean(x), mean(y)
    sxy = math.fsum((a - mx) * (b - my) for a, b in zip(x, y))
    sxx = math.fsum((a - mx) ** 2 for a in x)
    syy = math.fsum((b - my) ** 2 for b in y)
    return sxy / math.sqrt(sxx * syy)


def spearman(x, y):
    if len(x) < 2:
        return NAN
    return pearson(midranks(x), midranks(y))


@_safe
def kendall_tau_b(x, y):
    n = len(x)
    if n < 2:
        return NAN
    conc = disc = tx = ty = 0
    for i in range(n):
        for j in range(i + 1, n):
            dx = x[i] - x[j]
            dy = y[i] - y[j]
            if dx == 0 and dy == 0:
                continue
            if dx == 0:
                tx += 1
            elif dy == 0:
                ty += 1
            elif (dx > 0) == (dy > 0):
                conc += 1
            else:
                disc += 1
    return (conc - disc) / math.sqrt((conc + disc + tx) * (conc + disc + ty))


# ------------------------------------------------------------------------------ aggregators (C15)

def aggregate(name, xs):
    """The statistic an aggregator name denotes, of a list of numbers."""
    xs = list(xs)
    if name == "count":
        return float(sum(1 for x in xs if x == x))
    if not xs:
        return NAN
    if any(x != x for x in xs):
        if name in ("change", "abschange"):
            v = xs[-1] - xs[0]
            return abs(v) if name == "abschange" else v
        return NAN
    if name == "mean":
        return mean(xs)
    if name == "median":
        return median(xs)
    if name == "min":
        return min(xs)
    if name == "max":
        return max(xs)
    if name == "std":
        return pstd(xs)
    if name == "variance":
        return pvar(xs)
    if name == "iqr":
        return quantile_linear(xs, 0.75) - quantile_linear(xs, 0.25)
    if name == "range":
        return max(xs) - min(xs)
    if name == "sum":
        return math.fsum(xs)
    if name == "meanabs":
        return mean(abs(x) for x in xs)
    if name == "absmean":
        return abs(mean(xs))
    if name == "change":
        return xs[-1] - xs[0]
    if name == "abschange":
        return abs(xs[-1] - xs[0])
    try:
        q = float(name)
    except ValueError:
        raise KeyError(name)
    return quantile_linear(xs, q)


AGG_NAMES = ["mean", "median", "min", "max", "std", "variance", "iqr", "range", "count", "sum", "meanabs",
             "absmean", "change", "abschange"]


# ------------------------------------------------------------------------------ deterministic metrics (C05)

DETERMINISTIC = {}


def det(name, agg=False):
    def deco(f):
        g = _safe(f)
        g.supports_agg = agg
        DETERMINISTIC[name] = g
        return f
    return deco


@det("mae", True)
def _mae(o, f, agg="mean"):
    return aggregate(agg, [abs(a - b) for a, b in zip(o, f)])


@det("bias", True)
def _bias(o, f, agg="mean"):
    return aggregate(agg, [b - a for a, b in zip(o, f)])


@det("rmse", True)
def _rmse(o, f, agg="mean"):
    return math.sqrt(aggregate(agg, [(a - b) ** 2 for a, b in zip(o, f)]))


@det("cmae", True)
def _cmae(o, f, agg="mean"):
    v = aggregate(agg, [abs(a ** 3 - b ** 3) for a, b in zip(o, f)])
    if v < 0:
        raise ValueError
    return v ** (1.0 / 3)


@det("rmsf", True)
def _rmsf(o, f, agg="mean"):
    return math.exp(math.sqrt(aggregate(agg, [_ln(b / a) ** 2 for a, b in zip(o, f)])))


@det("diff", True)
def _diff(o, f, agg="mean"):
    return aggregate(agg, f) - aggregate(agg, o)


@det("ratio", True)
def _ratio(o, f, agg="mean"):
    return aggregate(agg, f) / aggregate(agg, o)


@det("stderror")
def _stderror(o, f):
    e = [a - b for a, b in zip(o, f)]
    return pstd(e)


@det("corr")
def _corr(o, f):
    return pearson(o, f)


@det("rankcorr")
def _rankcorr(o, f):
    return spearman(o, f)


@det("kendallcorr")
def _kendall(o, f):
    return kendall_tau_b(o, f)


@det("nsec")
def _nsec(o, f):
    mo = mean(o)
    return 1 - math.fsum((b - a) ** 2 for a, b in zip(o, f)) / math.fsum((a - mo) ** 2 for a in o)


@det("nnsec")
def _nnsec(o, f):
    mo = mean(o)
    nse = 1 - math.fsum((b - a) ** 2 for a, b in zip(o, f)) / math.fsum((a - mo) ** 2 for a in o)
    return 1 / (2 - nse)


@det("kge")
def _kge(o, f):
    r = pearson(o, f)
    if r != r:
        return NAN
    alpha = pstd(f) / pstd(o)
    beta = mean(f) / mean(o)
    return 1 - math.sqrt((r - 1) ** 2 + (alpha - 1) ** 2 + (beta - 1) ** 2)


@det("dmb")
def _dmb(o, f):
    return mean(o) / mean(f)


@det("mbias")
def _mbias(o, f):
    return mean(f) / mean(o)


@det("ef")
def _ef(o, f):
    return sum(1 for a, b in zip(o, f) if b > a) / float(len(o))


@det("derror")
def _derror(o, f):
    return mean(abs(a - b) for a, b in zip(sorted(o), sorted(f)))


@det("leps")
def _leps(o, f):
    # mean |F_o(f) - F_o(o)| with F_o the empirical CDF of the observations
    n = float(len(o))
    so = sorted(o)

    def cdf(x):
        return sum(1 for v in so if v <= x) / n
    return mean(abs(cdf(b) - cdf(a)) for a, b in zip(o, f))


@det("alphaindex")
def _alpha(o, f):
    # Koh et al. (2012): alpha = sum((f'-o')^2) / sum(f'^2 + o'^2), primes = anomalies from the own mean
    mo, mf = mean(o), mean(f)
    num = math.fsum(((b - mf) - (a - mo)) ** 2 for a, b in zip(o, f))
    den = math.fsum((b - mf) ** 2 + (a - mo) ** 2 for a, b in zip(o, f))
    return num / den


@det("obsstddev")
def _obsstd(o, f):
    return pstd(o)


@det("fcststddev")
def _fcststd(o, f):
    return pstd(f)


def deterministic(name, o, f, agg=None):
    o, f = list(o), list(f)
    if len(o) == 0:
        return NAN
    fn = DETERMINISTIC[name]
    if fn.supports_agg:
        return fn(o, f, agg or "mean")
    return fn(o, f)


# ------------------------------------------------------------------------------ probabilistic scores (C08)
# inputs: o = list of event indicators (0/1), p = list of forecast probabilities of the event

def _bins10(p):
    """index of the 10 equal-width probability bins, top edge inclusive"""
    edges = [i * 0.1 for i in range(11)]
    for i in range(10):
        hi = edges[i + 1]
        if p >= edges[i] and (p < hi or (i == 9 and p <= 1.0 + 1e-12)):
            return i
    return None


@_safe
def brier(o, p):
    return mean((b - a) ** 2 for a, b in zip(o, p))


@_safe
def brier_unc(o, p):
    m = mean(o)
    return mean((m - a) ** 2 for a in o)


def _bin_stats(o, p):
    groups = {}
    for a, b in zip(o, p):
        groups.setdefault(_bins10(b), []).append((a, b))
    return groups


@_safe
def brier_rel(o, p):
    n = float(len(o))
    tot = 0.0
    cnt = 0
    for k, g in _bin_stats(o, p).items():
        if k is None:
            continue
        ob = mean(a for a, _ in g)
        tot += math.fsum((b - ob) ** 2 for _, b in g)
        cnt += len(g)
    return tot / cnt


@_safe
def brier_res(o, p):
    m = mean(o)
    tot = 0.0
    cnt = 0
    for k, g in _bin_stats(o, p).items():
        if k is None:
            continue
        ob = mean(a for a, _ in g)
        tot += len(g) * (ob - m) ** 2
        cnt += len(g)
    return tot / cnt


@_safe
def brier_ss(o, p):
    u = brier_unc(o, p)
    return (u - brier(o, p)) / u


@_safe
def brier_ss_rel(o, p):
    return brier_rel(o, p) / brier_unc(o, p)


@_safe
def brier_ss_res(o, p):
    return brier_res(o, p) / brier_unc(o, p)


@_safe
def ignorance(o, p):
    return mean(-math.log(b, 2) if a else -math.log(1 - b, 2) for a, b in zip(o, p))


@_safe
def spherical(o, p):
    return mean((b if a else (1 - b)) / math.sqrt(b * b + (1 - b) * (1 - b)) for a, b in zip(o, p))


@_safe
def marginal_ratio(o, p):
    return mean(o) / mean(p)


@_safe
def pinball(obs, q, tau):
    return mean((a - b) * (tau - (1.0 if a - b < 0 else 0.0)) for a, b in zip(obs, q))


def norm_ppf(x):
    from statistics import NormalDist
    if x <= 0:
        return float("-inf")
    if x >= 1:
        return float("inf")
    return NormalDist().inv_cdf(x)


@_safe
def spread_skill_ratio(obs, fcst, qlo, qhi, lo, hi):
    spread = mean(b - a for a, b in zip(qlo, qhi))
    skill = math.sqrt(mean((a - b) ** 2 for a, b in zip(obs, fcst)))
    num_std = 0.5 * (norm_ppf(hi) - norm_ppf(lo))
    return spread / num_std / skill


def pit_hist(pit, nb=10):
    """relative frequencies in nb equal bins of [0,1], last bin closed"""
    n = [0] * nb
    for v in pit:
        if v < 0 or v > 1:
            continue
        i = min(int(v * nb + 1e-12), nb - 1) if v < 1 else nb - 1
        # guard against float edges: use the same float edges as i/nb
        edges = [k * (1.0 / nb) for k in range(nb + 1)]
        for k in range(nb):
            if (v >= edges[k] and v < edges[k + 1]) or (k == nb - 1 and v == edges[nb]):
                i = k
                break
        n[i] += 1
    tot = float(sum(n))
    if tot == 0:
        return [NAN] * nb
    return [x / tot for x in n]


@_safe
def pit_dev(pit, nb=10):
    if not pit:
        return NAN
    f = pit_hist(pit, nb)
    D = math.sqrt(1.0 / nb * math.fsum((x - 1.0 / nb) ** 2 for x in f))
    D0 = math.sqrt((1.0 - 1.0 / nb) / (len(pit) * nb))
    return D / D0


@_safe
def pit_slope(pit, nb=10):
    if not pit:
        return NAN
    f = pit_hist(pit, nb)
    dx = 1.0 / nb
    return mean((f[i + 1] - f[i]) / dx for i in range(nb - 1))


@_safe
def pit_shape(pit, nb=10):
    if not pit:
        return NAN
    f = pit_hist(pit, nb)
    dx = 1.0 / nb
    d = [(f[i + 1] - f[i]) / dx for i in range(nb - 1)]
    return mean((d[i + 1] - d[i]) / dx for i in range(nb - 2))
