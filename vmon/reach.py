"""Which functions of /repo were entered (sys.monitoring PY_START, disabled after first hit)."""
import os
import sys

_seen = set()
_TOOL = 3
_on = False


def start():
    global _on
    repo = os.environ.get("VMON_REPO", "/repo")
    mon = getattr(sys, "monitoring", None)
    if mon is None:
        return
    try:
        mon.use_tool_id(_TOOL, "vmon-reach")
    except ValueError:
        return

    def cb(code, offset):
        fn = code.co_filename
        if fn.startswith(repo):
            _seen.add(os.path.basename(fn)[:-3] + "." + code.co_qualname)
        return mon.DISABLE

    mon.register_callback(_TOOL, mon.events.PY_START, cb)
    mon.set_events(_TOOL, mon.events.PY_START)
    _on = True


def stop():
    mon = getattr(sys, "monitoring", None)
    if mon is not None and _on:
        mon.set_events(_TOOL, 0)
    return sorted(_seen)
