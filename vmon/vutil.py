"""Helpers on the verif side: build real Data objects from generated datasets, field mapping, comparisons."""
import math
import os

from vmon import gen


def vfield(spec):
    import verif.field
    k = spec[0]
    if k == "obs":
        return verif.field.Obs()
    if k == "fcst":
        return verif.field.Fcst()
    if k == "pit":
        return verif.field.Pit()
    if k == "thr":
        return verif.field.Threshold(spec[1])
    if k == "q":
        return verif.field.Quantile(spec[1])
    if k == "ens":
        return verif.field.Ensemble(spec[1])
    if k == "other":
        return verif.field.Other(spec[1])
    raise ValueError(spec)


def vaxis(name):
    import verif.axis
    return verif.axis.get(name)


def load_inputs(paths):
    import verif.input
    return [verif.input.get_input(p) for p in paths]


def build_data(paths, cpath=None, opts=None, **kw):
    """Real verif.data.Data from files; opts uses refmodel's option names."""
    import verif.data
    import verif.input
    opts = opts or {}
    inputs = load_inputs(paths)
    clim = verif.input.get_input(cpath) if cpath else None
    args = dict(clim=clim, clim_type=opts.get("clim_type", "subtract"),
                times=opts.get("times"), dates=opts.get("dates"), tods=opts.get("tods"),
                leadtimes=opts.get("leadtimes"), locations=opts.get("locations"),
                locations_x=opts.get("locations_x"), lat_range=opts.get("latrange"),
                lon_range=opts.get("lonrange"), elev_range=opts.get("elevrange"),
                obs_range=opts.get("obsrange"))
    if opts.get("T"):
        import verif.aggregator
        import verif.axis
        T = opts["T"]
        args.update(dim_agg_length=T["h"], dim_agg_axis=verif.axis.get(T.get("tx", "leadtime")),
                    dim_agg_method=verif.aggregator.get(T.get("agg", "mean")))
    args.update(kw)
    return verif.data.Data(inputs, **args)


def opts_to_argv(opts, rng=None):
    """refmodel options -> command line fragment.  With an rng, runs of consecutive whole numbers are sometimes written in
    the documented range syntax (1,3,4,5 -> 1,3:5), mixed with plain entries."""
    def vec(v):
        v = list(v)
        if rng is None or rng.random() < 0.5 or not all(float(x).is_integer() for x in v) or v != sorted(set(v)):
            return ",".join(gen.fnum(x) for x in v)
        out, i = [], 0
        while i < len(v):
            j = i
            while j + 1 < len(v) and v[j + 1] == v[j] + 1:
                j += 1
            if j > i:
                out.append("%s:%s" % (gen.fnum(v[i]), gen.fnum(v[j])))
            else:
                out.append(gen.fnum(v[i]))
            i = j + 1
        return ",".join(out)
    a = []
    m = {"times": "-t", "dates": "-d", "tods": "-tod", "leadtimes": "-o", "locations": "-l",
         "locations_x": "-lx", "latrange": "-latrange", "lonrange": "-lonrange", "elevrange": "-elevrange",
         "obsrange": "-obsrange"}
    if opts.get("T"):
        T = opts["T"]
        a += ["-T", gen.fnum(T["h"])]
        if T.get("agg"):
            a += ["-Tagg", T["agg"]]
        if T.get("tx"):
            a += ["-Tx", T["tx"]]
    for k, flag in m.items():
        if opts.get(k) is not None:
            if k.endswith("range"):
                a += [flag, ",".join(gen.fnum(x) for x in opts[k])]
            else:
                a += [flag, vec(opts[k])]
    return a


def isnan(x):
    return isinstance(x, float) and x != x


def num_equal(a, b, rel=1e-9, abs_=1e-12):
    """NaN == NaN; masked counts as NaN."""
    try:
        import numpy as np
        if a is np.ma.masked:
            a = float("nan")
        if b is np.ma.masked:
            b = float("nan")
    except Exception:
        pass
    if a is None:
        a = float("nan")
    if b is None:
        b = float("nan")
    a = float(a)
    b = float(b)
    if a != a or b != b:
        return a != a and b != b
    if math.isinf(a) or math.isinf(b):
        return a == b
    return abs(a - b) <= abs_ + rel * max(abs(a), abs(b))


def sentinel_or_list(arr):
    """verif returns a single NaN for 'no valid data'; map that to the empty list."""
    import numpy as np
    a = np.asarray(arr, float).flatten()
    if a.shape[0] == 1 and np.isnan(a[0]):
        return []
    return a.tolist()


def fmt_g(x):
    return "%g" % x


def close_text_number(text, expected, sig):
    """Is `text` the %.{sig}g rendering of expected, or within one unit in the last printed digit?"""
    if expected is None or (isinstance(expected, float) and expected != expected):
        return text.strip().lower() == "nan"
    want = ("%%.%dg" % sig) % expected
    if text.strip() == want:
        return True
    try:
        got = float(text)
    except ValueError:
        return False
    if got != got:
        return False
    if abs(got - expected) < 1e-12:
        return True
    if expected == 0:
        return abs(got) < 10 ** (-sig)
    mag = math.floor(math.log10(abs(expected)))
    ulp = 10 ** (mag - sig + 1)
    return abs(got - expected) <= 1.0000001 * ulp
