"""Record-mode contracts on the real verif functions (harness-side attachment, guard VERIF_MONITOR=1).

Every contract evaluates an independent oracle, records a violation event in the current Ctx and returns True,
so the workload continues. Contracts are attached with icontract (argument binding, OLD snapshots) using named
condition functions and an explicit error class.
"""
import math
import os

import icontract

_ctx = None
_attached = {}


class ContractBroken(Exception):
    pass


def enabled():
    return os.environ.get("VERIF_MONITOR") == "1"


def set_ctx(ctx):
    global _ctx
    _ctx = ctx


def _count(name, n=1):
    if _ctx is not None:
        _ctx.count(name, n)


def _viol(prop, key, msg, case=None):
    if _ctx is not None:
        _ctx.violation(key, msg, case, prop=prop)


# ----------------------------------------------------------------------------- documented event table (C07)
# bin type -> (uses_lower, lower_closed, uses_upper, upper_closed)
BIN_TABLE = {
    "below":    (False, False, True, False),
    "below=":   (False, False, True, True),
    "above":    (True, False, False, False),
    "above=":   (True, True, False, False),
    "within":   (True, False, True, False),
    "=within":  (True, True, True, False),
    "within=":  (True, False, True, True),
    "=within=": (True, True, True, True),
}


def in_event(x, lower, upper, lower_eq, upper_eq):
    """Pure-Python membership; None for a missing value (belongs to no event)."""
    if x is None or x != x:
        return None
    above = x > lower or (lower_eq and x == lower)
    below = x < upper or (upper_eq and x == upper)
    return bool(above and below)


def in_documented_event(x, bin_type, t0, t1=None):
    """Membership by the help text (below: x<t, ... within=: t0<x<=t1); None for a missing value."""
    if x is None or x != x:
        return None
    ul, lc, uu, uc = BIN_TABLE[bin_type]
    ok = True
    if ul:
        ok = ok and (x > t0 or (lc and x == t0))
    if uu:
        t = t1 if ul else t0
        ok = ok and (x < t or (uc and x == t))
    return bool(ok)


def event_bounds(bin_type, t0, t1=None):
    ul, lc, uu, uc = BIN_TABLE[bin_type]
    if ul and uu:
        return t0, t1, lc, uc
    if ul:
        return t0, float("inf"), lc, False
    return float("-inf"), t0, False, uc


def _flat(x):
    import numpy as np
    if isinstance(x, np.ndarray):
        return [float(v) for v in np.asarray(x, float).flatten()]
    return [float(x)]


def _within_post(self, x, result):
    import numpy as np
    _count("contract:Interval.within")
    try:
        xs = _flat(x)
        if isinstance(x, np.ndarray):
            res = np.ma.masked_array(result)
            vals = np.ma.getdata(res).flatten().tolist()
            mask = np.ma.getmaskarray(res).flatten().tolist()
            if np.shape(result) != np.shape(x):
                _viol("C07", "within-shape", "Interval.within changed the shape: %s -> %s" % (np.shape(x), np.shape(result)))
                return True
        else:
            if isinstance(result, float) and result != result:
                vals, mask = [False], [True]
            else:
                vals, mask = [bool(result)], [False]
        for xv, rv, mv in zip(xs, vals, mask):
            e = in_event(xv, self.lower, self.upper, self.lower_eq, self.upper_eq)
            _count("contract:Interval.within:cells")
            if e is None:
                if not mv and bool(rv):
                    _viol("C07", "within-missing-in-event", "a missing value was reported inside %s" % self)
            elif mv or bool(rv) != e:
                _viol("C07", "within-truth-table",
                      "Interval(%r,%r,lower_eq=%r,upper_eq=%r).within(%r) gave %r (masked=%r), documented %r"
                      % (self.lower, self.upper, self.lower_eq, self.upper_eq, xv, rv, mv, e))
    except Exception as ex:   # the monitor must never disturb the workload
        _count("contract:error")
        if _ctx is not None:
            _ctx.note("within contract error %r" % ex)
    return True


def _apply_threshold_post(array, bin_type, threshold, result, upper_threshold=None):
    import numpy as np
    _count("contract:apply_threshold")
    try:
        if bin_type not in BIN_TABLE:
            return True
        ul, lc, uu, uc = BIN_TABLE[bin_type]
        if ul and uu and upper_threshold is None:
            return True
        lo, up, lc, uc = event_bounds(bin_type, threshold, upper_threshold)
        xs = _flat(array)
        rs = _flat(result)
        if len(xs) != len(rs):
            _viol("C07", "apply_threshold-shape", "apply_threshold changed the number of elements")
            return True
        for xv, rv in zip(xs, rs):
            e = in_event(xv, lo, up, lc, uc)
            _count("contract:apply_threshold:cells")
            if e is None:
                if rv == rv:
                    _viol("C07", "apply_threshold-missing", "missing value became %r under %s %r" % (rv, bin_type, threshold))
            elif rv != (1.0 if e else 0.0):
                _viol("C07", "apply_threshold-truth-table", "apply_threshold(%r, %s, %r, %r) gave %r, documented %r"
                      % (xv, bin_type, threshold, upper_threshold, rv, e))
    except Exception as ex:
        _count("contract:error")
        if _ctx is not None:
            _ctx.note("apply_threshold contract error %r" % ex)
    return True


def _get_intervals_post(bin_type, thresholds, result):
    _count("contract:get_intervals")
    try:
        if thresholds is None or bin_type not in BIN_TABLE:
            return True
        ts = [float(t) for t in thresholds]
        if any(t != t for t in ts):
            return True     # a NaN threshold (e.g. automatic thresholds of an empty dataset) denotes no event
        ul, lc, uu, uc = BIN_TABLE[bin_type]
        n = len(ts) - 1 if (ul and uu) else len(ts)
        if len(result) != max(n, 0):
            _viol("C07", "get_intervals-count", "get_intervals(%s, %s) returned %d intervals, documented %d"
                  % (bin_type, ts, len(result), n))
            return True
        for i, iv in enumerate(result):
            lo, up, lc2, uc2 = event_bounds(bin_type, ts[i], ts[i + 1] if (ul and uu) else None)
            got = (float(iv.lower), float(iv.upper), bool(iv.lower_eq), bool(iv.upper_eq))
            # closedness at an infinite end is immaterial
            want = (lo, up, lc2, uc2)
            same = got[0] == want[0] and got[1] == want[1] and \
                (math.isinf(lo) or got[2] == want[2]) and (math.isinf(up) or got[3] == want[3])
            if not same:
                _viol("C07", "get_intervals-bounds|%s" % bin_type, "get_intervals(%s, %s)[%d] = %s, documented %s"
                      % (bin_type, ts, i, got, want))
    except Exception as ex:
        _count("contract:error")
        if _ctx is not None:
            _ctx.note("get_intervals contract error %r" % ex)
    return True


def _compute_abcd_post(self, obs, fcst, interval, result, f_interval=None):
    """Conservation: a+b+c+d == number of pairs with both values present (C06)."""
    import numpy as np
    _count("contract:_compute_abcd")
    try:
        if getattr(self, "_usingQuantiles", False):
            return True
        o = np.asarray(obs, float).flatten()
        f = np.asarray(fcst, float).flatten()
        if len(f) == 0:
            return True
        npairs = int(np.sum((np.isnan(o) == 0) & (np.isnan(f) == 0)))
        a, b, c, d = [float(np.ma.filled(v, 0)) if v is not np.ma.masked else 0.0 for v in result]
        if int(round(a + b + c + d)) != npairs:
            _viol(_abcd_prop, "abcd-conservation", "a+b+c+d = %g but %d pairs have both values (interval %s / %s)"
                  % (a + b + c + d, npairs, interval, f_interval))
        fi = f_interval if f_interval is not None else interval
        ea = eb = ec = ed = 0
        for ov, fv in zip(o.tolist(), f.tolist()):
            eo = in_event(ov, interval.lower, interval.upper, interval.lower_eq, interval.upper_eq)
            ef = in_event(fv, fi.lower, fi.upper, fi.lower_eq, fi.upper_eq)
            if eo is None or ef is None:
                continue
            if ef and eo:
                ea += 1
            elif ef:
                eb += 1
            elif eo:
                ec += 1
            else:
                ed += 1
        if (ea, eb, ec, ed) != (int(round(a)), int(round(b)), int(round(c)), int(round(d))):
            _viol(_abcd_prop, "abcd-counts", "contingency counts %s but pairs give %s (interval %s / %s)"
                  % ((a, b, c, d), (ea, eb, ec, ed), interval, fi))
    except Exception as ex:
        _count("contract:error")
        if _ctx is not None:
            _ctx.note("abcd contract error %r" % ex)
    return True


def _wrap(owner, name, cond):
    key = (owner, name)
    if key in _attached:
        return True
    if not hasattr(owner, name):
        _count("not_attached:" + name)
        return False
    orig = getattr(owner, name)
    wrapped = icontract.ensure(cond, error=ContractBroken)(orig)
    _attached[key] = orig
    setattr(owner, name, wrapped)
    return True


_abcd_prop = "C06"


def attach_abcd(ctx, prop):
    """Only the contingency-table conservation contract (a pair with a missing value is in no cell), reported under prop."""
    import verif.metric
    global _abcd_prop
    set_ctx(ctx)
    if not enabled():
        return
    _abcd_prop = prop
    _wrap(verif.metric.Contingency, "_compute_abcd", _compute_abcd_post)


def attach_events(ctx):
    """C07 / C06 contracts."""
    import verif.interval
    import verif.metric
    import verif.util
    set_ctx(ctx)
    if not enabled():
        return
    _wrap(verif.interval.Interval, "within", _within_post)
    _wrap(verif.util, "apply_threshold", _apply_threshold_post)
    _wrap(verif.util, "get_intervals", _get_intervals_post)
    _wrap(verif.metric.Contingency, "_compute_abcd", _compute_abcd_post)


def _get_scores_post(self, fields, input_index, result, axis=None, axis_index=None):
    """No NaN/inf inside a non-empty result (except the one-NaN 'no data' sentinel); equal lengths (C01/C04)."""
    import numpy as np
    _count("contract:get_scores")
    try:
        import verif.axis
        res = result if isinstance(result, list) else [result]
        if axis is None or axis == verif.axis.All():
            shapes = set(np.shape(r) for r in res)
            if len(shapes) > 1:
                _viol("C01", "get_scores-shapes-differ", "fields returned with shapes %s" % (shapes,))
            return True
        lens = set(len(r) for r in res)
        if len(lens) > 1:
            _viol("C01", "get_scores-lengths-differ", "fields returned with lengths %s" % (lens,))
        for r in res:
            a = np.asarray(r, float)
            if a.shape[0] == 1 and np.isnan(a[0]):
                continue
            if not np.all(np.isfinite(a)):
                _viol("C04", "get_scores-returns-nonfinite", "get_scores(%s, input %s, %s, %s) returned NaN/inf among %d values"
                      % ([f.name() for f in (fields if isinstance(fields, list) else [fields])], input_index,
                         axis.name() if axis is not None else None, axis_index, a.shape[0]))
    except Exception as ex:
        _count("contract:error")
        if _ctx is not None:
            _ctx.note("get_scores contract error %r" % ex)
    return True


def attach_data(ctx):
    import verif.data
    set_ctx(ctx)
    if not enabled():
        return
    _wrap(verif.data.Data, "get_scores", _get_scores_post)


def detach_all():
    for (owner, name), orig in list(_attached.items()):
        setattr(owner, name, orig)
    _attached.clear()
