"""Shared machinery: paths, deps, shard runner, verdicts, evidence, known findings.

A check = one property module (vmon/props/cXX.py) that provides

    RULE            str   how cases are generated, what makes one distinct/non-trivial
    ASSUMPTIONS     list
    plan(tier, seed) -> list of shard descriptors (JSON-able dicts)
    run_shard(desc, ctx) -> None  (calls ctx.case(...) / ctx.violation(...) / ctx.count(...))
    replay(case, ctx) -> None     (re-runs one recorded case)

The parent process (run_check) starts one subprocess per shard (vmon.worker), each
with the real verif imported from /repo's working tree, collects their result files
and takes the verdict.
"""
import fcntl
import fnmatch
import json
import os
import shutil
import subprocess
import sys
import tempfile
import time

VERIF_DIR = os.path.dirname(os.path.dirname(os.path.abspath(__file__)))
REPO = os.environ.get("VMON_REPO", "/repo")
PY = os.environ.get("VMON_PYTHON", "/venv/bin/python")
DEPS = os.path.join(VERIF_DIR, ".deps")
WHEELS = "/opt/veriftools/wheels"
NCPU = int(os.environ.get("VMON_JOBS", "16"))
KNOWN = os.path.join(VERIF_DIR, "known_findings.json")

EXIT_HELD, EXIT_VIOLATION, EXIT_INCONCLUSIVE = 0, 1, 2


def ensure_deps():
    """Install icontract/deal/jsonschema beside /venv's interpreter, offline, once."""
    marker = os.path.join(DEPS, ".ok")
    if os.path.exists(marker):
        return
    os.makedirs(DEPS, exist_ok=True)
    with open(os.path.join(VERIF_DIR, ".deps.lock"), "w") as lock:
        fcntl.flock(lock, fcntl.LOCK_EX)
        if os.path.exists(marker):
            return
        cmd = [PY, "-m", "pip", "install", "--quiet", "--no-index", "--find-links", WHEELS,
               "--target", DEPS, "--upgrade", "icontract", "deal", "jsonschema"]
        r = subprocess.run(cmd, stdout=subprocess.PIPE, stderr=subprocess.STDOUT, text=True)
        if r.returncode != 0:
            sys.stderr.write(r.stdout)
            raise SystemExit("vmon: could not install .deps offline")
        open(marker, "w").write("ok\n")


def worker_env():
    env = dict(os.environ)
    env["PYTHONPATH"] = os.pathsep.join([REPO, VERIF_DIR, DEPS])
    env["VERIF_MONITOR"] = "1"
    env["MPLBACKEND"] = "Agg"
    env["VMON_REPO"] = REPO
    env.setdefault("OMP_NUM_THREADS", "1")
    env.setdefault("OPENBLAS_NUM_THREADS", "1")
    env.setdefault("MKL_NUM_THREADS", "1")
    env.setdefault("HDF5_USE_FILE_LOCKING", "FALSE")
    env["PYTHONWARNINGS"] = "ignore"
    return env


def load_known():
    try:
        with open(KNOWN) as f:
            return json.load(f).get("findings", [])
    except FileNotFoundError:
        return []


def match_known(prop, key, known):
    """Return the matching 'known' entry (status == known) or None. 'fixed' never matches."""
    for k in known:
        if k.get("property") != prop or k.get("status") != "known":
            continue
        if fnmatch.fnmatchcase(key, k["key"]):
            return k
    return None


def jsonable(x):
    """Best-effort conversion of numpy things to JSON."""
    try:
        import numpy as np
    except Exception:  # pragma: no cover
        np = None
    if x is None or isinstance(x, (bool, int, str)):
        return x
    if isinstance(x, float):
        if x != x:
            return "nan"
        if x in (float("inf"), float("-inf")):
            return "inf" if x > 0 else "-inf"
        return x
    if np is not None:
        if isinstance(x, np.generic):
            return jsonable(x.item())
        if isinstance(x, np.ma.MaskedArray):
            return jsonable(np.ma.filled(x.astype(float), np.nan).tolist())
        if isinstance(x, np.ndarray):
            return jsonable(x.tolist())
    if isinstance(x, dict):
        return {str(k): jsonable(v) for k, v in x.items()}
    if isinstance(x, (list, tuple, set)):
        return [jsonable(v) for v in x]
    return repr(x)


class Ctx(object):
    """Per-shard collector living in the worker process."""

    def __init__(self, prop, desc, workdir):
        self.prop = prop
        self.desc = desc
        self.workdir = workdir
        self.evaluations = 0
        self.sigs = {}
        self.samples = []
        self.counters = {}
        self.violations = []
        self.notes = []
        self.max_samples = 3
        self.max_violations = 40
        self._viol_keys = {}

    def count(self, name, n=1):
        self.counters[name] = self.counters.get(name, 0) + n

    def case(self, sig, nontrivial, sample=None):
        """Record one executed case; sig is a short string naming its class."""
        self.evaluations += 1
        s = str(sig)
        self.sigs[s] = bool(self.sigs.get(s, False) or nontrivial)
        if sample is not None and len(self.samples) < self.max_samples:
            self.samples.append(jsonable(sample))

    def violation(self, key, msg, case=None, prop=None):
        """key: mechanism signature (stable string, no random values); case: replayable dict."""
        prop = prop or self.prop
        n = self._viol_keys.get((prop, key), 0)
        self._viol_keys[(prop, key)] = n + 1
        self.count("violations_total")
        if n >= 3 or len(self.violations) >= self.max_violations:
            return
        self.violations.append({"property": prop, "key": key, "msg": str(msg)[:2000],
                                "case": jsonable(case)})

    def note(self, text):
        if len(self.notes) < 20:
            self.notes.append(str(text)[:500])

    def result(self):
        return {"evaluations": self.evaluations, "sigs": self.sigs, "samples": self.samples,
                "counters": self.counters, "violations": self.violations, "notes": self.notes,
                "viol_counts": {"%s|%s" % k: v for k, v in self._viol_keys.items()}}


TZS = ["UTC0", "PST8", "XYZ-5:30", "NZST-12", "HST10", "CET-1"]


def load_prop(prop):
    import importlib
    return importlib.import_module("vmon.props." + prop.lower())


def _run_workers(prop, descs, timeout_s, workroot):
    """Start one subprocess per shard descriptor, at most NCPU at a time."""
    env = worker_env()
    pending = list(enumerate(descs))
    running = []
    results = [None] * len(descs)
    failures = []
    while pending or running:
        while pending and len(running) < NCPU:
            i, d = pending.pop(0)
            wd = os.path.join(workroot, "s%03d" % i)
            os.makedirs(wd)
            dfile = os.path.join(wd, "desc.json")
            ofile = os.path.join(wd, "out.json")
            with open(dfile, "w") as f:
                json.dump(d, f)
            log = open(os.path.join(wd, "log.txt"), "w")
            p = subprocess.Popen([PY, "-X", "faulthandler", "-m", "vmon.worker", prop, dfile, ofile, wd],
                                 env=env, cwd=wd, stdout=log, stderr=subprocess.STDOUT)
            running.append((i, p, time.time(), ofile, log, wd))
        still = []
        for (i, p, t0, ofile, log, wd) in running:
            rc = p.poll()
            if rc is None:
                if time.time() - t0 > timeout_s:
                    p.kill()
                    p.wait()
                    log.close()
                    failures.append("shard %d: watchdog after %ds" % (i, timeout_s))
                else:
                    still.append((i, p, t0, ofile, log, wd))
                continue
            log.close()
            if rc != 0 or not os.path.exists(ofile):
                tail = ""
                try:
                    tail = open(os.path.join(wd, "log.txt")).read()[-1500:]
                except Exception:
                    pass
                failures.append("shard %d: exit %s\n%s" % (i, rc, tail))
            else:
                with open(ofile) as f:
                    results[i] = json.load(f)
        running = still
        if running:
            time.sleep(0.05)
    return results, failures


def run_check(prop, tier, seed, replay=None):
    t0 = time.time()
    ensure_deps()
    sys.path.insert(0, DEPS)
    mod = load_prop(prop)
    known = load_known()
    workroot = tempfile.mkdtemp(prefix="vmon-%s-" % prop)
    try:
        if replay is not None:
            with open(replay) as f:
                rec = json.load(f)
            descs = [{"replay": rec["case"], "tier": tier, "seed": seed}]
        else:
            descs = mod.plan(tier, seed)
            if getattr(mod, "ROTATE_TZ", False):
                # verif's calendar is UTC whatever the machine's time zone: shards run under different process time zones
                for i_, d_ in enumerate(descs):
                    d_.setdefault("tz", TZS[(i_ + seed) % len(TZS)])
        timeout_s = getattr(mod, "TIMEOUT", {}).get(tier, 1500 if tier == "quick" else 7200)
        results, failures = _run_workers(prop, descs, timeout_s, workroot)
    finally:
        shutil.rmtree(workroot, ignore_errors=True)

    evaluations = 0
    sigs = {}
    samples = []
    counters = {}
    violations = []
    notes = []
    viol_counts = {}
    for r in results:
        if r is None:
            continue
        evaluations += r["evaluations"]
        for s, nt in r["sigs"].items():
            sigs[s] = sigs.get(s, False) or nt
        for smp in r["samples"]:
            if len(samples) < 4:
                samples.append(smp)
        for k, v in r["counters"].items():
            counters[k] = counters.get(k, 0) + v
        violations.extend(r["violations"])
        notes.extend(r.get("notes", []))
        for k, v in r.get("viol_counts", {}).items():
            viol_counts[k] = viol_counts.get(k, 0) + v

    # classify
    new, seen_known = [], {}
    for v in violations:
        k = match_known(v["property"], v["key"], known)
        if k is not None:
            seen_known.setdefault((v["property"], k["key"]), (k, v))
        else:
            new.append(v)

    inconclusive = list(failures)
    required = getattr(mod, "REQUIRED_COUNTERS", [])
    if replay is None:
        for c in required:
            if counters.get(c, 0) <= 0:
                inconclusive.append("deciding counter '%s' is zero" % c)
        if evaluations == 0:
            inconclusive.append("no case was executed")

    distinct_nontrivial = sum(1 for s, nt in sigs.items() if nt)
    wall = time.time() - t0

    # replay files for new violations
    replay_paths = []
    rdir = os.path.join(VERIF_DIR, "replays", prop)
    try:
        ev_commit = subprocess.check_output(["git", "-C", REPO, "rev-parse", "--short", "HEAD"], stderr=subprocess.DEVNULL, text=True).strip()
    except Exception:
        ev_commit = None
    dedup = set()
    for v in new:
        if (v["property"], v["key"]) in dedup:
            continue
        dedup.add((v["property"], v["key"]))
        os.makedirs(rdir, exist_ok=True)
        import hashlib
        h = hashlib.sha1((v["property"] + v["key"]).encode()).hexdigest()[:10]
        path = os.path.join(rdir, "%s.json" % h)
        with open(path, "w") as f:
            json.dump({"property": v["property"], "key": v["key"], "msg": v["msg"], "case": v["case"],
                       "seed": seed, "tier": tier}, f, indent=1)
        replay_paths.append((v, path))

    if replay is None and evaluations == 0:
        inconclusive.append("no evaluation was made (every shard failed): evidence file not rewritten")
    if replay is None and evaluations > 0:
        cov = {
            "evaluations": evaluations,
            "distinct_nontrivial": distinct_nontrivial,
            "distinct_signatures": len(sigs),
            "rule": mod.RULE,
            "samples": samples if samples else ["<no sample recorded>"],
            "monitor_counters": counters,
            "known_findings_seen": sorted("%s %s" % k for k in seen_known),
            "new_violation_keys": sorted(set(v["key"] for v in new)),
            "violation_event_counts": viol_counts,
            "inconclusive": inconclusive,
            "shards": len(descs),
        }
        if getattr(mod, "EXHAUSTIVE", None):
            cov["exhaustive"] = True
            cov["exhaustive_note"] = mod.EXHAUSTIVE
        if notes:
            cov["notes"] = notes[:20]
        ev = {
            "property_id": prop, "tier": tier, "seed": int(seed), "level": "exploration",
            "coverage": cov, "assumptions": list(getattr(mod, "ASSUMPTIONS", [])),
            "wall_s": round(wall, 2), "violations": len(new), "repo_commit": ev_commit,
        }
        # evidence/<id>.json is only ever written from runs against /repo itself; development runs against a scratch
        # copy (VMON_REPO) go to an ignored directory
        edir = os.path.join(VERIF_DIR, "evidence") if os.path.realpath(REPO) == "/repo" else os.path.join(VERIF_DIR, ".work", "evidence")
        os.makedirs(edir, exist_ok=True)
        epath = os.path.join(edir, "%s.json" % prop)
        ev["repo"] = REPO
        with open(epath + ".tmp", "w") as f:
            json.dump(ev, f, indent=1, sort_keys=True)
        os.replace(epath + ".tmp", epath)
        _validate_evidence(epath)

    for (p, kk), (k, v) in sorted(seen_known.items()):
        print("KNOWN-FINDING: property=%s %s [%s]" % (p, k.get("what", ""), kk))
    print("%s tier=%s seed=%s evaluations=%d distinct_nontrivial=%d wall=%.1fs counters=%s" % (
        prop, tier, seed, evaluations, distinct_nontrivial, wall,
        json.dumps({k: counters[k] for k in sorted(counters)})))
    if new:
        for v, path in replay_paths:
            print("VIOLATION property=%s replay=%s" % (v["property"], path))
            print("  key=%s\n  %s" % (v["key"], v["msg"].replace("\n", "\n  ")[:1200]))
        return EXIT_VIOLATION
    if inconclusive:
        for r in inconclusive:
            print("INCONCLUSIVE property=%s reason=%s" % (prop, r.replace("\n", " | ")[:1500]))
        return EXIT_INCONCLUSIVE
    print("HELD property=%s on what was observed" % prop)
    return EXIT_HELD


def _validate_evidence(path):
    schema_path = "/root/.vp/EVIDENCE.schema.json"
    local = os.path.join(VERIF_DIR, "schemas", "EVIDENCE.schema.json")
    if not os.path.exists(schema_path):
        schema_path = local
    if not os.path.exists(schema_path):
        return
    try:
        import jsonschema
    except Exception:
        return
    with open(schema_path) as f:
        schema = json.load(f)
    with open(path) as f:
        ev = json.load(f)
    jsonschema.validate(ev, schema)
