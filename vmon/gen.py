"""Dataset generator and file writers.

A dataset is a plain dictionary (JSON-able) that is the oracle for every reader:

ds  = {"inputs": [inp, ...], "clim": inp | None}
inp = {"name", "fmt": "text"|"nc", "times": [int], "leadtimes": [float], "locs": [[id, lat, lon, elev]],
       "thresholds": [..], "quantiles": [..], "members": int, "has": ["obs","fcst","pit"],
       "others": [names], "variable": {"name","units","x0","x1"},
       "cells": {"t|l|id": {"obs": v, "fcst": v, "pit": v, "p": [..], "q": [..], "e": [..], "o": {name: v}}},
       "style": {...writer options...}}
A missing value is None (or an absent key / absent cell).
All numbers are multiples of 1/8 of moderate size, hence exact in float32 and in short decimals.
"""
import math
import os
import random

MISSING_TOKENS_TEXT = ["-999", "nan", "NaN", "NA", "missing", "-", "-999.0"]
NC_MISSING_ENC = ["fill", "m999", "nan", "big", "masked", "customfill", "mvattr"]

BOUNDARY_TIMES = [
    946684800,   # 2000-01-01 00 (Sat)
    951782400,   # 2000-02-29 00 leap day
    951868800,   # 2000-03-01
    978220800,   # 2000-12-31 (leap year day 366) Sunday
    978307200,   # 2001-01-01 Monday
    1009756800,  # 2001-12-31 Monday
    1009843200,  # 2002-01-01
    1078012800,  # 2004-02-29 Sunday
    1078099200,  # 2004-03-01 Monday
    1330473600,  # 2012-02-29
    1356912000,  # 2012-12-31 Monday
    1356998400,  # 2013-01-01
    1388534400,  # 2014-01-01
    1419984000,  # 2014-12-31
    1456704000,  # 2016-02-29 Monday
    1483142400,  # 2016-12-31 Saturday
    1483228800,  # 2017-01-01 Sunday
    1483315200,  # 2017-01-02 Monday
    1582934400,  # 2020-02-29
    1609372800,  # 2020-12-31
    4102444800,  # 2100-01-01 (not leap)
    4107456000,  # 2100-02-28
    4107542400,  # 2100-03-01
    0,           # epoch
    86400 * 365, # 1971-01-01
]


def ck(t, l, i):
    return "%d|%s|%s" % (int(t), fnum(l), fnum(i))


def rename_leadtime(inp, old, new):
    """Move every cell of lead time `old` to lead time `new` (the input then has the same number of lead times)."""
    cells = {}
    for k, c in inp["cells"].items():
        t, l, s = k.split("|")
        cells[("%s|%s|%s" % (t, fnum(new), s)) if l == fnum(old) else k] = c
    inp["cells"] = cells
    inp["leadtimes"] = sorted(new if x == old else x for x in inp["leadtimes"])


def fnum(x):
    """Short exact decimal for our 1/8-grid numbers (and ints)."""
    if x is None:
        return "None"
    if x in (float("inf"), float("-inf")):
        return "inf" if x > 0 else "-inf"
    if isinstance(x, int) or float(x).is_integer():
        return "%d" % int(x)
    return repr(float(x))


def q8(rng, lo, hi):
    """Random multiple of 1/8 in [lo, hi]."""
    return rng.randint(int(lo * 8), int(hi * 8)) / 8.0


def q4(rng, lo, hi):
    return rng.randint(int(lo * 4), int(hi * 4)) / 4.0


def pick_times(rng, n, hours=None, cluster=True, lo_year=1970, hi_year=2100):
    """n distinct unix times on whole hours, clustered around calendar boundaries."""
    out = set()
    tries = 0
    while len(out) < n and tries < 1000:
        tries += 1
        if cluster and rng.random() < 0.7:
            base = rng.choice(BOUNDARY_TIMES)
            t = base + rng.choice([-2, -1, 0, 0, 1, 2, 7, -7, 30]) * 86400
        else:
            t = rng.randint(0, 4102444800 // 86400) * 86400
        if hours is None:
            h = rng.choice([0, 0, 0, 6, 12, 18, 23, 1, 3])
        else:
            h = rng.choice(hours)
        t = t + h * 3600
        if t < 0 or t > 4133980800:
            continue
        out.add(int(t))
    return sorted(out)


LOC_POOL = [
    # id, lat, lon, elev  (all exact in float32)
    [1, 60.0, 10.5, 100.0],
    [2, 61.25, 11.0, 250.0],
    [3, 59.5, 9.75, 0.0],
    [7, 70.0, -20.0, 1200.5],
    [12, -33.5, 151.25, 12.0],
    [18700, 59.9375, 10.75, 94.0],
    [50540, 60.375, 5.25, 12.0],
    [99, 0.0, 0.0, 0.0],
    [100, 45.0, -122.5, 300.0],
    [205, 49.25, -123.0, 5.0],
]


def make_input(rng, name, fmt="text", times=None, leadtimes=None, locs=None, has=("obs", "fcst"),
               thresholds=(), quantiles=(), members=0, others=(), miss=0.0, sparse=0.0,
               truth=None, vrange=(-10, 30), variable=None, consistent_cdf=True, integerish=False):
    """Build one input. truth: dict cellkey -> obs value shared between inputs ("the truth")."""
    inp = {"name": name, "fmt": fmt, "times": list(times), "leadtimes": list(leadtimes),
           "locs": [list(x) for x in locs], "thresholds": list(thresholds), "quantiles": list(quantiles),
           "members": int(members), "has": list(has), "others": list(others),
           "variable": variable or {"name": "Temperature", "units": "C", "x0": None, "x1": None},
           "cells": {}, "style": {}}
    lo, hi = vrange
    for t in inp["times"]:
        for l in inp["leadtimes"]:
            for loc in inp["locs"]:
                if sparse and rng.random() < sparse:
                    continue
                k = ck(t, l, loc[0])
                c = {}

                def val():
                    if integerish:
                        return float(rng.randint(int(lo), int(lo) + 4))
                    return q8(rng, lo, hi)

                def maybe(v):
                    return None if (miss and rng.random() < miss) else v

                if "obs" in has:
                    if truth is not None:
                        if k not in truth:
                            truth[k] = val()
                        c["obs"] = maybe(truth[k])
                    else:
                        c["obs"] = maybe(val())
                if "fcst" in has:
                    c["fcst"] = maybe(val())
                if members:
                    c["e"] = [maybe(val()) for _ in range(members)]
                if thresholds:
                    if consistent_cdf:
                        ps = sorted(rng.choice([0.0, 0.125, 0.25, 0.5, 0.625, 0.75, 0.875, 1.0, rng.randint(0, 64) / 64.0])
                                    for _ in thresholds)
                    else:
                        ps = [rng.randint(0, 64) / 64.0 for _ in thresholds]
                    c["p"] = [maybe(p) for p in ps]
                if quantiles:
                    qs = sorted(val() for _ in quantiles)
                    c["q"] = [maybe(q) for q in qs]
                if "pit" in has:
                    c["pit"] = maybe(rng.choice([0.0, 1.0, rng.randint(0, 64) / 64.0, rng.randint(0, 64) / 64.0]))
                if others:
                    c["o"] = {n: maybe(val()) for n in others}
                inp["cells"][k] = c
    if fmt == "text":
        prune_dims(inp)
    return inp


def prune_dims(inp):
    """A text file only knows the coordinates that occur in some row."""
    if not inp["cells"]:
        t, l, loc = inp["times"][0], inp["leadtimes"][0], inp["locs"][0]
        c = {}
        for f in inp["has"]:
            c[f] = None
        inp["cells"][ck(t, l, loc[0])] = c
    ts, ls, ss = set(), set(), set()
    for k in inp["cells"]:
        a, b, c = k.split("|")
        ts.add(a)
        ls.add(b)
        ss.add(c)
    inp["times"] = [t for t in inp["times"] if str(int(t)) in ts]
    inp["leadtimes"] = [l for l in inp["leadtimes"] if fnum(l) in ls]
    inp["locs"] = [x for x in inp["locs"] if fnum(x[0]) in ss]


def make_dataset(rng, *args, **kw):
    """make_dataset_once, repeated until the inputs have at least one common time, lead time and location
    (sparse text files may lose coordinates)."""
    for _ in range(50):
        ds = make_dataset_once(rng, *args, **kw)
        allin = ds["inputs"] + ([ds["clim"]] if ds.get("clim") else [])
        t = set(allin[0]["times"])
        l = set(allin[0]["leadtimes"])
        s = set(x[0] for x in allin[0]["locs"])
        for i in allin[1:]:
            t &= set(i["times"])
            l &= set(i["leadtimes"])
            s &= set(x[0] for x in i["locs"])
        if t and l and s:
            return ds
    raise RuntimeError("could not generate a dataset with common coordinates")


def make_dataset_once(rng, n_inputs=None, fmt=None, clim=False, prob=False, ens=False, pit=False, others=(),
                 miss=None, sparse=None, max_t=5, max_l=4, max_s=4, some_without_obs=False,
                 same_dims=False, integerish=False, vrange=(-10, 30), single=None, hours=None,
                 leadtime_pool=None, thresholds=None, quantiles=None, members=None, loc_pool=None, n_locs=None, minutes=None, times=None):
    """A family of inputs with mutually different coverage that share the same observations."""
    if n_inputs is None:
        n_inputs = rng.choice([1, 2, 2, 3, 4])
    nt = rng.randint(2, max_t + 2)
    nl = rng.randint(2, max_l + 2)
    ns = rng.randint(2, max_s + 1)
    if single == "time":
        nt = 1
    if single == "location":
        ns = 1
    if single == "leadtime":
        nl = 1
    alltimes = pick_times(rng, nt, hours=hours)
    if times is not None:
        alltimes = sorted(times)
    if minutes:
        # rapid-update cycles: initialisation times off the whole hour (text files then need the unixtime column)
        alltimes = sorted(set(t + 60 * rng.choice(minutes) for t in alltimes))
    pool = leadtime_pool or [0, 1, 3, 6, 12, 18, 23, 24, 25, 30, 36, 47, 48, 49, 72, 96, 240, 1.5]
    allleads = sorted(rng.sample(pool, min(nl, len(pool))))
    if n_locs is not None:
        ns = n_locs
    alllocs = rng.sample(loc_pool or LOC_POOL, min(ns, len(loc_pool or LOC_POOL)))
    if thresholds is None:
        thresholds = sorted(rng.sample([-5.0, 0.0, 0.5, 5.0, 10.0, 12.5, 20.0], rng.randint(2, 4))) if prob else []
    if quantiles is None:
        quantiles = sorted(rng.sample([0.0, 0.1, 0.25, 0.5, 0.75, 0.9, 1.0], rng.randint(2, 4))) if prob else []
    truth = {}
    inputs = []
    total = n_inputs + (1 if clim else 0)
    for i in range(total):
        if same_dims or total == 1:
            ts, ls, ss = alltimes, allleads, alllocs
        else:
            ts = [t for t in alltimes if rng.random() < 0.85] or alltimes[:1]
            ls = [l for l in allleads if rng.random() < 0.85] or allleads[:1]
            ss = [s for s in alllocs if rng.random() < 0.85] or alllocs[:1]
            # make sure the intersection is never empty: everyone keeps the first of each
            if alltimes[0] not in ts:
                ts = [alltimes[0]] + ts
            if allleads[0] not in ls:
                ls = [allleads[0]] + ls
            if alllocs[0] not in ss:
                ss = [alllocs[0]] + ss
        f = fmt or rng.choice(["text", "text", "nc"])
        has = ["obs", "fcst"]
        if some_without_obs and i > 0 and i < n_inputs and rng.random() < 0.5:
            has = ["fcst"]
        if pit:
            has.append("pit")
        m = miss if miss is not None else rng.choice([0.0, 0.05, 0.15, 0.3])
        sp = sparse if sparse is not None else (rng.choice([0.0, 0.0, 0.1, 0.3]) if f == "text" else 0.0)
        name = ("clim" if i >= n_inputs else "in%d" % i) + (".txt" if f == "text" else ".nc")
        inp = make_input(rng, name, f, ts, ls, ss, has=has,
                         thresholds=thresholds, quantiles=quantiles,
                         members=((members if members is not None else rng.randint(1, 6)) if ens else 0), others=others, miss=m, sparse=sp,
                         truth=truth, vrange=vrange, integerish=integerish)
        inputs.append(inp)
    ds = {"inputs": inputs[:n_inputs], "clim": inputs[n_inputs] if clim else None}
    return ds


# ----------------------------------------------------------------------------- writers

def unix_to_civil(t):
    """(y, m, d, H, M, S) from unix seconds, own arithmetic (Hinnant)."""
    days, rem = divmod(int(t), 86400)
    z = days + 719468
    era = (z if z >= 0 else z - 146096) // 146097
    doe = z - era * 146097
    yoe = (doe - doe // 1460 + doe // 36524 - doe // 146096) // 365
    y = yoe + era * 400
    doy = doe - (365 * yoe + yoe // 4 - yoe // 100)
    mp = (5 * doy + 2) // 153
    d = doy - (153 * mp + 2) // 5 + 1
    m = mp + 3 if mp < 10 else mp - 9
    if m <= 2:
        y += 1
    return (y, m, d, rem // 3600, (rem % 3600) // 60, rem % 60)


def civil_to_days(y, m, d):
    y -= m <= 2
    era = (y if y >= 0 else y - 399) // 400
    yoe = y - era * 400
    doy = (153 * (m + (-3 if m > 2 else 9)) + 2) // 5 + d - 1
    doe = yoe * 365 + yoe // 4 - yoe // 100 + doy
    return era * 146097 + doe - 719468


def default_text_style(inp, rng=None):
    """Writer options for a text file; random when rng given."""
    st = {"time": "unixtime", "lead": "leadtime", "loc": "location", "elev": "elev",
          "latlon": True, "has_elev": True, "has_loc": True, "shuffle_rows": False, "shuffle_cols": False,
          "tokens": ["-999"], "sep": " ", "comments": [], "meta": True, "drop_allmissing_rows": False}
    if rng is not None:
        st["time"] = rng.choice(["unixtime", "date+hour", "date+hour"])
        st["lead"] = rng.choice(["leadtime", "offset"])
        st["loc"] = rng.choice(["location", "id"])
        st["elev"] = rng.choice(["elev", "altitude"])
        st["shuffle_rows"] = rng.random() < 0.7
        st["shuffle_cols"] = rng.random() < 0.7
        st["tokens"] = rng.sample(MISSING_TOKENS_TEXT, rng.randint(1, 3))
        st["sep"] = rng.choice([" ", "  ", "\t", " \t "])
        if any(t % 3600 != 0 for t in inp["times"]):
            st["time"] = "unixtime"
    return st


def text_columns(inp, st):
    cols = []
    if st["time"] == "unixtime":
        cols.append("unixtime")
    elif st["time"] == "date+hour":
        cols += ["date", "hour"]
    elif st["time"] == "date":
        cols.append("date")
    if st["lead"] is not None:
        cols.append(st["lead"])
    if st["has_loc"]:
        cols.append(st["loc"])
    if st["latlon"] is True:
        cols += ["lat", "lon"]
    elif st["latlon"] in ("lat", "lon"):     # only one of the two columns
        cols.append(st["latlon"])
    if st["has_elev"]:
        cols.append(st["elev"])
    if "obs" in inp["has"]:
        cols.append("obs")
    if "fcst" in inp["has"]:
        cols.append("fcst")
    if "pit" in inp["has"]:
        cols.append("pit")
    for t in inp["thresholds"]:
        cols.append("p" + fnum(t))
    for q in inp["quantiles"]:
        cols.append("q" + fnum(q))
    labels = st.get("member_labels") or list(range(inp["members"]))
    for e in range(inp["members"]):
        cols.append("e%d" % labels[e])
    for o in inp["others"]:
        cols.append(o)
    return cols


def write_text(inp, path, rng=None):
    st = inp.get("style") or {}
    if not st or "time" not in st:
        st = default_text_style(inp, rng)
        inp["style"] = st
    r = rng or random.Random(0)
    cols = text_columns(inp, st)
    if st["shuffle_cols"]:
        r.shuffle(cols)
    st["cols"] = list(cols)
    toks = st["tokens"]
    lines = []
    v = inp["variable"]
    meta = []
    if st.get("meta", True):
        if v.get("name") is not None:
            meta.append("# variable: %s" % v["name"])
        if v.get("units") is not None:
            meta.append("# units: %s" % v["units"])
        if v.get("x0") is not None:
            meta.append("# x0: %s" % fnum(v["x0"]))
        if v.get("x1") is not None:
            meta.append("# x1: %s" % fnum(v["x1"]))
    locmap = {l[0]: l for l in inp["locs"]}
    rows = []
    for t in inp["times"]:
        for l in inp["leadtimes"]:
            for loc in inp["locs"]:
                k = ck(t, l, loc[0])
                if k not in inp["cells"]:
                    continue
                c = inp["cells"][k]
                row = []
                for col in cols:
                    if col == "unixtime":
                        row.append("%d" % t)
                    elif col == "date":
                        y, m, d, H, M, S = unix_to_civil(t)
                        row.append("%04d%02d%02d" % (y, m, d))
                    elif col == "hour":
                        y, m, d, H, M, S = unix_to_civil(t)
                        row.append(fnum(H + M / 60.0))
                    elif col in ("leadtime", "offset"):
                        row.append(fnum(l))
                    elif col in ("location", "id"):
                        row.append(fnum(loc[0]))
                    elif col == "lat":
                        cf = (st.get("conflict") or {}).get(fnum(loc[0]))
                        row.append(fnum(loc[1] + cf) if (cf and r.random() < 0.5) else fnum(loc[1]))
                    elif col == "lon":
                        row.append(fnum(loc[2]))
                    elif col in ("elev", "altitude"):
                        row.append(fnum(loc[3]))
                    else:
                        val = cell_value(inp, c, col)
                        row.append(r.choice(toks) if val is None else fnum(val))
                rows.append(row)
    if st["shuffle_rows"]:
        r.shuffle(rows)
    out = list(meta) + list(st.get("comments", []))
    sep = st["sep"]
    hdr = list(cols)
    if st.get("header_spelling"):
        # the numeric part of p<threshold> / q<quantile> / e<member> may be spelled in any way a number can be written
        hdr = [spell_header(c, r) for c in cols]
        st["header_as_written"] = list(hdr)
    out.append(sep.join(hdr))
    for row in rows:
        out.append(sep.join(row))
    with open(path, "w") as f:
        f.write("\n".join(out) + "\n")
    return path


def spell_header(col, r):
    """p10 -> p1e1 / p+10 / p10.0, q0.5 -> q.5 / q5e-1 / q+0.5, e1 -> e+1 / e01 / e1.0: the same number, another spelling"""
    if col in ("pit", "elev") or col[0] not in "pqe" or not _isnum(col[1:]) or len(col) < 2:
        return col
    s = col[1:]
    v = float(s)
    opts = [s]
    if not s.startswith("-"):
        opts.append("+" + s)
    if v != 0:
        m, e = ("%.10e" % v).split("e")
        m = m.rstrip("0").rstrip(".")
        opts.append("%se%d" % (m, int(e)))
    if s.startswith("0.") or s.startswith("-0."):
        opts.append(s.replace("0.", ".", 1))
    if "." not in s and "e" not in s:
        opts.append(s + ".0")
        if col[0] == "e" and not s.startswith("-"):
            opts.append("0" + s)
    opts = [o for o in opts if float(o) == v]
    return col[0] + r.choice(opts)


def cell_value(inp, c, col):
    if col in ("obs", "fcst", "pit"):
        return c.get(col)
    if col[0] == "p" and col != "pit" and _isnum(col[1:]) and inp["thresholds"]:
        ts = [fnum(t) for t in inp["thresholds"]]
        if col[1:] in ts:
            ps = c.get("p")
            return None if ps is None else ps[ts.index(col[1:])]
    if col[0] == "q" and _isnum(col[1:]) and inp["quantiles"]:
        qs = [fnum(q) for q in inp["quantiles"]]
        if col[1:] in qs:
            v = c.get("q")
            return None if v is None else v[qs.index(col[1:])]
    if col[0] == "e" and _isnum(col[1:]) and inp["members"]:
        e = c.get("e")
        labels = (inp.get("style") or {}).get("member_labels") or list(range(inp["members"]))
        return None if e is None else e[labels.index(int(col[1:]))]
    o = c.get("o") or {}
    return o.get(col)


def _isnum(s):
    try:
        float(s)
        return True
    except ValueError:
        return False


def write_nc(inp, path, rng=None):
    """NetCDF in the documented layout; missing values in mixed encodings."""
    import netCDF4
    import numpy as np
    st = inp.get("style") or {}
    r = rng or random.Random(0)
    if "enc" not in st:
        st = dict(st)
        st.setdefault("enc", r.sample(NC_MISSING_ENC, r.randint(1, 3)) if rng is not None else ["fill"])
        order = {"time": list(range(len(inp["times"]))), "leadtime": list(range(len(inp["leadtimes"]))),
                 "location": list(range(len(inp["locs"])))}
        if rng is not None and r.random() < 0.5:
            for k in order:
                r.shuffle(order[k])          # NetCDF files may store their dimension entries in any order
        if rng is not None and (inp["thresholds"] or inp["quantiles"]):
            # ... and so may the threshold / quantile coordinate (with the cdf / x columns stored in the same order);
            # own stream, so that the draws of the other writers are unchanged
            r2 = random.Random("tq-order|%s|%d|%s|%s" % (inp["name"], len(inp["cells"]), inp["thresholds"], inp["quantiles"]))
            for k, n in (("threshold", len(inp["thresholds"])), ("quantile", len(inp["quantiles"]))):
                order[k] = list(range(n))
                if r2.random() < 0.5:
                    r2.shuffle(order[k])
        st.setdefault("order", order)
        st.setdefault("vars", {"location": True, "lat": True, "lon": True, "altitude": True})
        fits = max(inp["times"]) < 2 ** 31 - 1
        st.setdefault("time_type", "i4" if (fits and r.random() < 0.5) else "f8")
        inp["style"] = st
    encs = st["enc"]
    ot, ol, os_ = st["order"]["time"], st["order"]["leadtime"], st["order"]["location"]
    times = [inp["times"][i] for i in ot]
    if st.get("unset_time_slot") is not None:
        # a preallocated but never written entry of the (unlimited) time dimension: the time value and all its data are missing
        times.insert(min(int(st["unset_time_slot"]), len(times)), None)
    leads = [inp["leadtimes"][i] for i in ol]
    locs = [inp["locs"][i] for i in os_]
    T, L, S = len(times), len(leads), len(locs)
    f = netCDF4.Dataset(path, "w", format=st.get("format", "NETCDF4"))
    try:
        f.createDimension("time", None)
        f.createDimension("leadtime", L)
        f.createDimension("location", S)
        if None in times:
            vt = f.createVariable("time", "f8", ("time",))
            vt[:] = np.ma.masked_invalid(np.array([np.nan if t_ is None else t_ for t_ in times], float))
        else:
            vt = f.createVariable("time", st.get("time_type", "f8"), ("time",))
            vt[:] = np.array(times)
        vl = f.createVariable("leadtime", "f4", ("leadtime",))
        vl[:] = np.array(leads, "f4")
        sv = st["vars"]
        if sv.get("location", True):
            v = f.createVariable("location", "f8", ("location",))
            v[:] = np.array([x[0] for x in locs], float)
        if sv.get("lat", True):
            v = f.createVariable("lat", "f4", ("location",))
            v[:] = np.array([x[1] for x in locs], "f4")
        if sv.get("lon", True):
            v = f.createVariable("lon", "f4", ("location",))
            v[:] = np.array([x[2] for x in locs], "f4")
        if sv.get("altitude", True):
            v = f.createVariable("altitude", "f4", ("location",))
            v[:] = np.array([x[3] for x in locs], "f4")

        FILL = netCDF4.default_fillvals["f4"]
        CUSTOM_FILL = -9999.0       # a per-variable _FillValue
        MV_ATTR = -99.0             # a value declared missing by the variable's missing_value attribute

        def put(name, dims, getter, extra=None):
            shape = [T, L, S] + ([extra] if extra else [])
            arr = np.zeros(shape, "f4")
            mask = np.zeros(shape, bool)
            for a, t in enumerate(times):
                for b, l in enumerate(leads):
                    for c_, loc in enumerate(locs):
                        cell = inp["cells"].get(ck(t, l, loc[0])) if t is not None else None
                        vals = getter(cell) if cell is not None else None
                        if extra:
                            vals = vals if vals is not None else [None] * extra
                        else:
                            vals = [vals]
                        for e, vv in enumerate(vals):
                            idx = (a, b, c_, e) if extra else (a, b, c_)
                            if vv is None:
                                enc = r.choice(encs)
                                if enc == "fill":
                                    arr[idx] = FILL
                                elif enc == "customfill":
                                    arr[idx] = CUSTOM_FILL
                                elif enc == "mvattr":
                                    arr[idx] = MV_ATTR
                                elif enc == "m999":
                                    arr[idx] = -999
                                elif enc == "nan":
                                    arr[idx] = np.nan
                                elif enc == "big":
                                    arr[idx] = 1e36
                                else:
                                    mask[idx] = True
                            else:
                                arr[idx] = vv
            if "customfill" in encs:
                var = f.createVariable(name, "f4", dims, fill_value=CUSTOM_FILL)
            else:
                var = f.createVariable(name, "f4", dims)
            if "mvattr" in encs:
                var.missing_value = np.float32(MV_ATTR)
            var[:] = np.ma.masked_array(arr, mask)

        d3 = ("time", "leadtime", "location")
        if "obs" in inp["has"]:
            put("obs", d3, lambda c: c.get("obs"))
        if "fcst" in inp["has"]:
            put("fcst", d3, lambda c: c.get("fcst"))
        if "pit" in inp["has"]:
            put("pit", d3, lambda c: c.get("pit"))
        if inp["thresholds"]:
            f.createDimension("threshold", len(inp["thresholds"]))
            v = f.createVariable("threshold", "f4", ("threshold",))
            oth = st["order"].get("threshold") or list(range(len(inp["thresholds"])))
            v[:] = np.array([inp["thresholds"][i] for i in oth], "f4")
            put("cdf", d3 + ("threshold",), lambda c: None if c.get("p") is None else [c["p"][i] for i in oth], len(inp["thresholds"]))
        if inp["quantiles"]:
            f.createDimension("quantile", len(inp["quantiles"]))
            v = f.createVariable("quantile", "f4", ("quantile",))
            oq = st["order"].get("quantile") or list(range(len(inp["quantiles"])))
            v[:] = np.array([inp["quantiles"][i] for i in oq], "f4")
            put("x", d3 + ("quantile",), lambda c: None if c.get("q") is None else [c["q"][i] for i in oq], len(inp["quantiles"]))
        if inp["members"]:
            f.createDimension("ensemble_member", inp["members"])
            put("ensemble", d3 + ("ensemble_member",), lambda c: c.get("e"), inp["members"])
        for o in inp["others"]:
            put(o, d3, lambda c, o=o: (c.get("o") or {}).get(o))
        var = inp["variable"]
        if var.get("name") is not None:
            f.long_name = var["name"]
        if var.get("units") is not None:
            f.units = var["units"]
        if var.get("x0") is not None:
            f.x0 = float(var["x0"])
        if var.get("x1") is not None:
            f.x1 = float(var["x1"])
        f.Conventions = "verif_1.0.0"
    finally:
        f.close()
    return path


def write_input(inp, dirname, rng=None, name=None):
    path = os.path.join(dirname, name or inp["name"])
    if inp["fmt"] == "nc":
        write_nc(inp, path, rng)
    else:
        write_text(inp, path, rng)
    return path


def materialize(ds, dirname, rng=None):
    paths = [write_input(i, dirname, rng) for i in ds["inputs"]]
    cpath = write_input(ds["clim"], dirname, rng) if ds.get("clim") else None
    return paths, cpath


def same_basename(paths, cpath, dirname):
    """experiments usually keep one file name in different directories (expA/fcst.nc expB/fcst.nc [-c clim/fcst.nc]): move the
    written files there when they all have the same extension; returns (paths, cpath, moved?)"""
    import shutil
    allp = list(paths) + ([cpath] if cpath else [])
    if len(allp) < 2 or len(set(os.path.splitext(p_)[1] for p_ in allp)) != 1:
        return paths, cpath, False
    newp = []
    for i_, p_ in enumerate(allp):
        sub = os.path.join(dirname, "exp%d" % i_)
        os.makedirs(sub, exist_ok=True)
        q_ = os.path.join(sub, "fcst" + os.path.splitext(p_)[1])
        shutil.move(p_, q_)
        newp.append(q_)
    if cpath:
        return newp[:-1], newp[-1], True
    return newp, None, True


def ds_summary(ds):
    """Small description of a dataset for evidence samples."""
    out = []
    for i in ds["inputs"] + ([ds["clim"]] if ds.get("clim") else []):
        nmiss = sum(1 for c in i["cells"].values() for k in ("obs", "fcst") if k in i["has"] and c.get(k) is None)
        out.append({"name": i["name"], "fmt": i["fmt"], "T": len(i["times"]), "L": len(i["leadtimes"]),
                    "S": len(i["locs"]), "cells": len(i["cells"]), "has": i["has"], "missing_obs_fcst": nmiss,
                    "thresholds": i["thresholds"], "quantiles": i["quantiles"], "members": i["members"]})
    return out
