"""Independent reference model of verif's data semantics, on the dataset dictionaries of gen.py.

No NumPy, no code shared with verif. Missing = None.

Field specs (tuples): ("obs",) ("fcst",) ("pit",) ("thr", value) ("q", level) ("ens", m) ("other", name)
Options dict (all optional):
  times, dates, tods, leadtimes, locations, locations_x, latrange, lonrange, elevrange, obsrange,
  clim_type ("subtract"|"divide")
"""
import math

from vmon.gen import ck, unix_to_civil, civil_to_days


class EmptySelection(Exception):
    pass


def isclose(a, b, rtol=1e-5, atol=1e-8):
    return abs(a - b) <= atol + rtol * abs(b)


def all_inputs(ds):
    return list(ds["inputs"]) + ([ds["clim"]] if ds.get("clim") else [])


# ------------------------------------------------------------------ dimension selection (C03)

def date_of(t):
    y, m, d, H, M, S = unix_to_civil(t)
    return y * 10000 + m * 100 + d


def common_dims(ds, opts=None):
    """-> (times, leadtimes, locs) ascending; locs are [id, lat, lon, elev] of the FIRST input."""
    opts = opts or {}
    inputs = all_inputs(ds)
    times = set(inputs[0]["times"])
    leads = set(inputs[0]["leadtimes"])
    ids = set(l[0] for l in inputs[0]["locs"])
    for i in inputs[1:]:
        times &= set(i["times"])
        leads &= set(i["leadtimes"])
        ids &= set(l[0] for l in i["locs"])
    meta = {l[0]: l for l in inputs[0]["locs"]}
    if opts.get("times") is not None:
        times &= set(int(t) for t in opts["times"] if float(t).is_integer())
    if opts.get("leadtimes") is not None:
        leads = set(l for l in leads if any(l == o for o in opts["leadtimes"]))
    if opts.get("locations") is not None:
        ids = set(i for i in ids if any(i == o for o in opts["locations"]))
    if opts.get("latrange") is not None or opts.get("lonrange") is not None:
        la = opts.get("latrange") or [-90, 90]
        lo = opts.get("lonrange") or [-180, 180]
        ids = set(i for i in ids if la[0] <= meta[i][1] <= la[1] and lo[0] <= meta[i][2] <= lo[1])
    if opts.get("elevrange") is not None:
        e = opts["elevrange"]
        ids = set(i for i in ids if e[0] <= meta[i][3] <= e[1])
    if opts.get("locations_x") is not None:
        ids = set(i for i in ids if not any(i == o for o in opts["locations_x"]))
    if opts.get("dates") is not None:
        ds_ = set(int(d) for d in opts["dates"])
        times = set(t for t in times if date_of(t) in ds_)
    if opts.get("tods") is not None:
        tods = set(int(h) for h in opts["tods"])
        times = set(t for t in times if (t % 86400) % 3600 == 0 and (t % 86400) // 3600 in tods)
    return sorted(times), sorted(leads), [meta[i] for i in sorted(ids)]


# ------------------------------------------------------------------ field values

def raw_value(inp, cell, field):
    """Value input `inp` stores for `field` in `cell` (None if missing). Raises KeyError if the input cannot
    provide the field at all."""
    kind = field[0]
    if cell is None:
        cell = {}
    if kind in ("obs", "fcst", "pit"):
        if kind not in inp["has"]:
            raise KeyError(kind)
        return cell.get(kind)
    if kind == "other":
        if field[1] not in inp["others"]:
            raise KeyError(field[1])
        return (cell.get("o") or {}).get(field[1])
    if kind == "ens":
        if field[1] >= inp["members"]:
            raise KeyError("ens")
        e = cell.get("e")
        return None if e is None else e[field[1]]
    if kind == "thr":
        for j, t in enumerate(inp["thresholds"]):
            if isclose(t, field[1]):
                p = cell.get("p")
                return None if p is None else p[j]
        if inp["members"] <= 0:
            raise KeyError("thr")
        e = [x for x in (cell.get("e") or []) if x is not None]
        if not e:
            return None
        return sum(1 for x in e if x <= field[1]) / float(len(e))
    if kind == "q":
        for j, q in enumerate(inp["quantiles"]):
            if isclose(q, field[1]):
                v = cell.get("q")
                return None if v is None else v[j]
        if inp["members"] <= 0:
            raise KeyError("q")
        e = cell.get("e") or []
        if len(e) != inp["members"] or any(x is None for x in e):
            return None
        return ("ensq", sorted(e), field[1])   # interpolation rule not fixed by the property
    raise ValueError(field)


def window_value(inp, field, t, l, s, h, tx="leadtime", agg="mean"):
    """-T h: aggregate of the input's own series over the trailing window (cur - h, cur] along lead time (or time); None if a
    member of the window is missing ('change' / 'abschange' look at the two ends only)."""
    from vmon import refmetrics
    grid = sorted(inp["leadtimes"] if tx == "leadtime" else inp["times"])
    cur = l if tx == "leadtime" else t
    scale = 1.0 if tx == "leadtime" else 3600.0
    win = [g for g in grid if cur - h * scale < g <= cur]
    vals = []
    for g in win:
        key = ck(t if tx == "leadtime" else g, g if tx == "leadtime" else l, s)
        vals.append(raw_value(inp, inp["cells"].get(key), field))
    if not vals:
        return None
    if agg in ("change", "abschange"):
        if vals[0] is None or vals[-1] is None:
            return None
        v = vals[-1] - vals[0]
        return abs(v) if agg == "abschange" else v
    if any(v is None for v in vals):
        return None
    return refmetrics.aggregate(agg, vals)


def _val(inp, t, l, s, f, opts):
    T = (opts or {}).get("T")
    if T and f[0] in ("obs", "fcst"):
        return window_value(inp, f, t, l, s, T["h"], T.get("tx", "leadtime"), T.get("agg", "mean"))
    return raw_value(inp, inp["cells"].get(ck(t, l, s)), f)


def obs_value(ds, t, l, s, k=None, opts=None):
    """The observation used for input k: its own file's if that file has observations, otherwise the first obs-bearing
    file's; missing if any input that has obs lacks it."""
    val = None
    own = None
    found = False
    for j, inp in enumerate(all_inputs(ds)):
        if "obs" not in inp["has"]:
            continue
        found = True
        if (opts or {}).get("T"):
            v = _val(inp, t, l, s, ("obs",), opts)
        else:
            c = inp["cells"].get(ck(t, l, s))
            v = None if c is None else c.get("obs")
        if v is None:
            return None
        val = v if val is None else val
        if j == k:
            own = v
    if not found:
        raise KeyError("obs")
    return val if own is None else own


def case_values(ds, k, fields, t, l, s, opts=None, own_obs=True):
    """Values input k returns at one case for the requested fields, or None if the case is not valid.

    A case is valid iff for every requested field EVERY input (and the climatology) has a non-missing
    value, the observation is inside obsrange, and the anomaly is finite."""
    opts = opts or {}
    inputs = all_inputs(ds)
    key = ck(t, l, s)
    out = []
    uses_of = any(f[0] in ("obs", "fcst") for f in fields)
    climv = None
    if ds.get("clim") is not None and uses_of:
        # climatology forecast; the forecast field is propagated across every input
        for inp in inputs:
            if raw_value(inp, inp["cells"].get(key), ("fcst",)) is None:
                return None
        climv = raw_value(ds["clim"], ds["clim"]["cells"].get(key), ("fcst",))
    for f0 in fields:
        f = f0
        # -obs / -fcst field overrides: the named field plays the role of the observation / forecast
        if f0[0] == "obs" and opts.get("obs_field") is not None:
            f = tuple(opts["obs_field"])
        if f0[0] == "fcst" and opts.get("fcst_field") is not None:
            f = tuple(opts["fcst_field"])
        if f[0] == "obs":
            v = obs_value(ds, t, l, s, k, opts)
            if v is None:
                return None
        else:
            v = None
            for j, inp in enumerate(inputs):
                vj = _val(inp, t, l, s, f, opts)
                if vj is None:
                    return None
                if j == k:
                    v = vj
        if f0[0] == "obs":
            rng = opts.get("obsrange")
            if rng is not None and (v < rng[0] or v > rng[1]):
                return None
        if climv is not None and f0[0] in ("obs", "fcst"):
            if opts.get("clim_type", "subtract") == "subtract":
                v = v - climv
            else:
                if climv == 0:
                    return None  # x/0 -> inf or nan: dropped
                v = v / climv
        out.append(v)
    return out


def valid_cases(ds, k, fields, opts=None):
    """[(t, l, locrow, [values...])] in ascending (t, l, id) order."""
    times, leads, locs = common_dims(ds, opts)
    res = []
    for t in times:
        for l in leads:
            for loc in locs:
                v = case_values(ds, k, fields, t, l, loc[0], opts)
                if v is not None:
                    res.append((t, l, loc, v))
    return res


# ------------------------------------------------------------------ calendar buckets (C11)

def days_to_unix(days):
    return days * 86400


def bucket(axis, t=None, l=None, loc=None):
    """Slice label of a case along an axis (own calendar arithmetic)."""
    if axis == "time":
        return t
    if axis == "leadtime":
        return l
    if axis == "leadtimeday":
        return int(l / 24)
    if axis == "location":
        return loc[0]
    if axis == "lat":
        return loc[1]
    if axis == "lon":
        return loc[2]
    if axis == "elev":
        return loc[3]
    if axis in ("no", "threshold", "obs", "fcst"):
        return 0
    y, m, d, H, M, S = unix_to_civil(t)
    if axis == "year":
        return days_to_unix(civil_to_days(y, 1, 1))
    if axis == "month":
        return days_to_unix(civil_to_days(y, m, 1))
    if axis == "day":
        return days_to_unix(civil_to_days(y, m, d))
    if axis == "week":
        days = civil_to_days(y, m, d)
        wd = (days + 3) % 7          # 1970-01-01 was a Thursday; Monday = 0
        return days_to_unix(days - wd)
    if axis == "timeofday":
        return (t % 86400) / 3600.0
    if axis == "dayofyear":
        return civil_to_days(2000, m, d) - civil_to_days(2000, 1, 1) + 1
    if axis == "dayofyear_true":
        return civil_to_days(y, m, d) - civil_to_days(y, 1, 1) + 1
    if axis == "dayofmonth":
        return d
    if axis == "monthofyear":
        return m
    raise ValueError(axis)


TIME_AXES = ["time", "year", "month", "week", "day", "timeofday", "dayofyear", "dayofmonth", "monthofyear"]
LEAD_AXES = ["leadtime", "leadtimeday"]
LOC_AXES = ["location", "lat", "lon", "elev"]
ALL_AXES = TIME_AXES + LEAD_AXES + LOC_AXES + ["no"]


def slice_labels(ds, axis, opts=None):
    """Ordered list of slice labels along an axis (the rows verif reports)."""
    times, leads, locs = common_dims(ds, opts)
    if axis in TIME_AXES:
        if axis == "time":
            return list(times)
        return sorted(set(bucket(axis, t=t) for t in times))
    if axis in LEAD_AXES:
        return sorted(set(bucket(axis, l=l) for l in leads))
    if axis in LOC_AXES:
        return [bucket(axis, loc=loc) for loc in locs]   # one slice per location, ascending id
    return [0]


def slices(ds, k, fields, axis, opts=None):
    """[(label, [values-list per case])] ; location-like axes give one slice per location."""
    cases = valid_cases(ds, k, fields, opts)
    labels = slice_labels(ds, axis, opts)
    if axis in LOC_AXES:
        times, leads, locs = common_dims(ds, opts)
        out = []
        for loc in locs:
            out.append((bucket(axis, loc=loc), [c[3] for c in cases if c[2][0] == loc[0]]))
        return out
    groups = {lab: [] for lab in labels}
    for (t, l, loc, v) in cases:
        groups[bucket(axis, t=t, l=l, loc=loc)].append(v)
    return [(lab, groups[lab]) for lab in labels]


def fmt_time_label(axis, unixtime):
    """How verif prints the row descriptor of a time-like axis."""
    y, m, d, H, M, S = unix_to_civil(unixtime)
    if axis == "time":
        return "%04d-%02d-%02d %02d:%02d:%02d" % (y, m, d, H, M, S)
    if axis == "year":
        return "%04d" % y
    if axis == "month":
        return "%04d/%02d" % (y, m)
    if axis == "day":
        return "%04d/%02d/%02d" % (y, m, d)
    if axis == "week":
        # strftime %U: week of year, Sunday as first day; days before the first Sunday are week 0
        doy = civil_to_days(y, m, d) - civil_to_days(y, 1, 1)      # 0-based
        wd_sun0 = (civil_to_days(y, m, d) + 4) % 7                   # Sunday = 0
        return "%04d/%02d" % (y, (doy + 7 - wd_sun0) // 7)
    raise ValueError(axis)


# ------------------------------------------------------------------ pre-aggregation (C15)

def window_indices(grid, i, length):
    """Indices j of the sorted grid with grid[i]-length < grid[j] <= grid[i] (trailing window)."""
    return [j for j in range(len(grid)) if grid[i] - length < grid[j] <= grid[i]]
