import argparse
import os
import sys

from vmon import common


def main():
    ap = argparse.ArgumentParser(prog="check")
    ap.add_argument("prop")
    ap.add_argument("--tier", default=os.environ.get("VERIF_TIER") or "quick", choices=["quick", "thorough"])
    ap.add_argument("--replay", default=None)
    ap.add_argument("--seed", default=None, type=int)
    a = ap.parse_args()
    seed = a.seed if a.seed is not None else int(os.environ.get("VERIF_SEED", "0") or 0)
    rc = common.run_check(a.prop.upper(), a.tier, seed, a.replay)
    sys.stdout.flush()
    sys.exit(rc)


if __name__ == "__main__":
    main()
