"""Reference interpreter of the documented command-line semantics (table outputs), on dataset dictionaries.

spec = {"metric": str, "axis": str|None, "agg": str|None, "thresholds": [..]|None, "bin": str|None,
        "opts": {refmodel options}, "clim": bool, "clim_type": "subtract"|"divide", "leg": [names]|None,
        "acc": bool}
table(ds, spec) -> {"desc_names": [...], "col_names": [...], "rows": [{"desc": [...], "values": [...]}]}

Encodes only documented behaviour (DESIGN.md appendix B).
"""
import os

from vmon import attach, refmetrics, refmodel

NAN = float("nan")

DEFAULT_AXIS = {}
for _n in refmetrics.CATEGORICAL:
    DEFAULT_AXIS[_n] = "threshold"
DEFAULT_AXIS["within"] = "leadtime"
DEFAULT_BIN = {"within": "below"}

AXIS_HEADER = {"time": "Time", "leadtime": "Leadtime", "year": "Year", "month": "Month", "week": "Week", "day": "Day",
               "timeofday": "Timeofday", "dayofyear": "Dayofyear", "dayofmonth": "Dayofmonth", "monthofyear": "Monthofyear",
               "leadtimeday": "Leadtimeday", "no": "No", "threshold": "Threshold"}


def events(bin_type, thresholds):
    """[(t0, t1|None)] the documented events for a bin type and threshold list."""
    ul, lc, uu, uc = attach.BIN_TABLE[bin_type]
    if ul and uu:
        return [(thresholds[i], thresholds[i + 1]) for i in range(len(thresholds) - 1)]
    return [(t, None) for t in thresholds]


def score(metric, agg, pairs, bin_type=None, event=None):
    """Score of a list of (obs, fcst) pairs."""
    o = [p[0] for p in pairs]
    f = [p[1] for p in pairs]
    if metric in refmetrics.DETERMINISTIC:
        return refmetrics.deterministic(metric, o, f, agg)
    if metric in refmetrics.CATEGORICAL:
        a = b = c = d = 0
        for ov, fv in pairs:
            eo = attach.in_documented_event(ov, bin_type, event[0], event[1])
            ef = attach.in_documented_event(fv, bin_type, event[0], event[1])
            if ef and eo:
                a += 1
            elif ef:
                b += 1
            elif eo:
                c += 1
            else:
                d += 1
        return refmetrics.categorical(metric, a, b, c, d)
    if metric == "within":
        if not pairs:
            return NAN
        return 100.0 * sum(1 for ov, fv in pairs if attach.in_documented_event(abs(ov - fv), bin_type, event[0], event[1])) / len(pairs)
    raise KeyError(metric)


def table(ds, spec):
    metric = spec["metric"]
    opts = dict(spec.get("opts") or {})
    if spec.get("fcst_field"):
        opts["fcst_field"] = spec["fcst_field"]
    if spec.get("obs_field"):
        opts["obs_field"] = spec["obs_field"]
    if spec.get("clim"):
        opts["clim_type"] = spec.get("clim_type", "subtract")
    dsx = ds if spec.get("clim") else {"inputs": ds["inputs"], "clim": None}
    axis = spec.get("axis") or DEFAULT_AXIS.get(metric, "leadtime")
    agg = spec.get("agg")
    F = len(dsx["inputs"])
    needs_thr = metric in refmetrics.CATEGORICAL or metric == "within"
    bin_type = spec.get("bin") or DEFAULT_BIN.get(metric, "above")
    evs = events(bin_type, spec["thresholds"]) if needs_thr else [None]
    if metric in ("obs", "fcst"):
        fields = [(metric,)]
    else:
        fields = [("obs",), ("fcst",)]
    cols = []
    for k in range(F):
        if axis == "threshold":
            cases = refmodel.valid_cases(dsx, k, fields, opts)
            pairs = [tuple(c[3]) for c in cases]
            col = [score(metric, agg, pairs, bin_type, ev) for ev in evs]
        else:
            sl = refmodel.slices(dsx, k, fields, axis, opts)
            col = []
            for lab, cs in sl:
                if metric in ("obs", "fcst"):
                    xs = [c[0] for c in cs]
                    if not xs:
                        # the count of nothing may be reported as 0 or as NaN
                        v = (0.0, NAN) if (agg == "count") else NAN
                    else:
                        v = refmetrics.aggregate(agg or "mean", xs)
                else:
                    pairs = [tuple(c) for c in cs]
                    vals = [score(metric, agg, pairs, bin_type, ev) for ev in evs]
                    v = sum(vals) / len(vals) if all(x == x for x in vals) else NAN
                col.append(v)
        cols.append(col)
    nrows = len(cols[0])
    if spec.get("acc"):
        for col in cols:
            run = 0.0
            if any((not isinstance(c, tuple)) and c != c for c in col) and metric not in ("obs", "fcst"):
                # an undefined score may be NaN (counted as 0) or +-inf (which -acc turns into a huge number):
                # the running sum is not determined by the documentation from there on
                first = min(i for i, c in enumerate(col) if (not isinstance(c, tuple)) and c != c)
                for i in range(first, nrows):
                    col[i] = None
                nrows_ = first
            else:
                nrows_ = nrows
            for i in range(nrows_):
                ci_ = col[i][0] if isinstance(col[i], tuple) else col[i]
                run += 0.0 if ci_ != ci_ else ci_
                col[i] = run
    # descriptors
    if axis == "threshold":
        desc_names = ["Threshold"]
        descs = [[t] for t in spec["thresholds"]][:nrows]
    elif axis in refmodel.LOC_AXES:
        desc_names = ["id", "lat", "lon", "elev"]
        times, leads, locs = refmodel.common_dims(dsx, opts)
        descs = [list(l) for l in locs]
    elif axis in ("time", "year", "month", "week", "day"):
        desc_names = [AXIS_HEADER[axis]]
        descs = [[refmodel.fmt_time_label(axis, lab)] for lab in refmodel.slice_labels(dsx, axis, opts)]
    else:
        desc_names = [AXIS_HEADER[axis]]
        descs = [[lab] for lab in refmodel.slice_labels(dsx, axis, opts)]
    names = spec.get("leg") or [i["name"] for i in dsx["inputs"]]
    rows = [{"desc": descs[i], "values": [cols[k][i] for k in range(F)]} for i in range(nrows)]
    return {"desc_names": desc_names, "col_names": list(names), "rows": rows}


def spec_to_argv(spec, paths, cpath=None):
    """The command line a user would type for this spec (canonical order; callers may shuffle option groups)."""
    from vmon import gen, vutil
    groups = [["-m", spec["metric"]]]
    if spec.get("axis"):
        groups.append(["-x", spec["axis"]])
    if spec.get("agg"):
        groups.append(["-agg", spec["agg"]])
    if spec.get("thresholds") is not None:
        groups.append(["-r", ",".join(gen.fnum(t) for t in spec["thresholds"])])
    if spec.get("bin"):
        groups.append(["-b", spec["bin"]])
    if spec.get("clim") and cpath:
        groups.append(["-c" if spec.get("clim_type", "subtract") == "subtract" else "-C", cpath])
    o = vutil.opts_to_argv(spec.get("opts") or {})
    for i in range(0, len(o), 2):
        groups.append(o[i:i + 2])
    fo = (spec.get("opts") or {})
    def fname(f):
        return {"obs": "obs", "fcst": "fcst", "pit": "pit"}.get(f[0]) or ("quantile:%s" % gen.fnum(f[1]) if f[0] == "q" else
                                                                         "threshold:%s" % gen.fnum(f[1]) if f[0] == "thr" else f[1])
    if spec.get("fcst_field"):
        groups.append(["-fcst", fname(spec["fcst_field"])])
    if spec.get("obs_field"):
        groups.append(["-obs", fname(spec["obs_field"])])
    if spec.get("leg"):
        groups.append(["-leg", ",".join(n.replace(" ", "_") for n in spec["leg"])])
    if spec.get("acc"):
        groups.append(["-acc"])
    groups.append(["-type", spec.get("type", "csv")])
    return groups


def compare_table(got_header, got_rows, ref, sig=6, textfmt=False, abs_tol=0.0):
    """Compare a parsed csv table with the reference. Returns None or a message."""
    from vmon import vutil
    nd = len(ref["desc_names"])
    want_header = ref["desc_names"] + ref["col_names"]
    if [h.strip() for h in got_header] != want_header:
        return "header %s, documented %s" % (got_header, want_header)
    if len(got_rows) != len(ref["rows"]):
        return "%d rows, reference %d" % (len(got_rows), len(ref["rows"]))
    for i, (g, r) in enumerate(zip(got_rows, ref["rows"])):
        if len(g) != nd + len(r["values"]):
            return "row %d has %d fields, expected %d" % (i, len(g), nd + len(r["values"]))
        for j in range(nd):
            w = r["desc"][j]
            if isinstance(w, str):
                if g[j].strip() != w:
                    return "row %d descriptor %r, documented %r" % (i, g[j], w)
            else:
                try:
                    if not vutil.num_equal(float(g[j]), float(w), 1e-6, 1e-9):
                        return "row %d descriptor %r, documented %r" % (i, g[j], w)
                except ValueError:
                    return "row %d descriptor %r is not a number (documented %r)" % (i, g[j], w)
        for k, w in enumerate(r["values"]):
            txt = g[nd + k].strip()
            if w is None:
                continue
            if isinstance(w, tuple):
                if not any((x != x and txt.lower() == "nan") or (x == x and vutil.close_text_number(txt, x, sig)) for x in w):
                    return "row %d column %d: %s, reference one of %r" % (i, k, txt, w)
            elif w != w:
                if txt.lower() not in ("nan", "inf", "-inf"):
                    return "row %d column %d: %s where the score is undefined" % (i, k, txt)
            elif not vutil.close_text_number(txt, w, sig):
                try:
                    if abs_tol and abs(float(txt) - w) <= abs_tol:
                        continue
                except ValueError:
                    pass
                return "row %d column %d: %s, reference %r" % (i, k, txt, w)
    return None
