"""A shared 'ambient' CLI workload: varied command lines on generated datasets, executed in-process while
property-specific contracts are attached. It gives the global monitors realistic call sites (all of verif's own
callers of Interval.within, apply_threshold, aggregators, parse_numbers, Data.get_scores ...)."""
import os
import random

from vmon import gen, runner

DET_METRICS = ["mae", "bias", "rmse", "corr", "ets", "hit", "fa", "far", "a", "b", "c", "d", "n", "hss", "kss", "pc",
               "threat", "biasfreq", "baserate", "within", "obs", "fcst", "ef", "stderror", "yulesq", "or", "lor",
               "edi", "sedi", "eds", "seds", "dscore", "fcstrate", "miss"]
PROB_METRICS = ["bs", "bss", "bsrel", "bsres", "bsunc", "ign0", "spherical", "marginalratio", "quantilescore",
                "pit", "pithistdev", "quantile", "threshold"]
DIAGRAMS = ["freq", "cond", "performance", "droc", "obsfcst", "qq", "reliability", "roc", "discrimination", "marginal"]
BINS = ["below", "below=", "above", "above=", "within", "=within", "within=", "=within="]
AXES = ["leadtime", "time", "location", "no", "threshold", "month", "week", "leadtimeday", "lat", "obs", "fcst"]
AGGS = ["mean", "median", "min", "max", "std", "variance", "iqr", "range", "count", "sum", "meanabs", "absmean", "0.3"]


def make_files(workdir, seed):
    rng = random.Random("ambient-%s" % seed)
    d = os.path.join(workdir, "ambient")
    os.makedirs(d, exist_ok=True)
    det = gen.make_dataset(rng, n_inputs=2, miss=0.1, sparse=0.05, integerish=rng.random() < 0.5, vrange=(0, 12))
    prob = gen.make_dataset(rng, n_inputs=2, prob=True, ens=True, pit=True, miss=0.1, members=4, vrange=(0, 12),
                            thresholds=[0.0, 2.0, 5.0, 10.0], quantiles=[0.1, 0.5, 0.9], fmt="text")
    dd = os.path.join(d, "det")
    pd = os.path.join(d, "prob")
    os.makedirs(dd)
    os.makedirs(pd)
    pdet, _ = gen.materialize(det, dd, rng)
    pprob, _ = gen.materialize(prob, pd, rng)
    return pdet, pprob


def commands(rng, pdet, pprob, n):
    out = []
    for _ in range(n):
        r = rng.random()
        if r < 0.55:
            m = rng.choice(DET_METRICS)
            files = pdet if rng.random() < 0.7 else pprob
        elif r < 0.85:
            m = rng.choice(PROB_METRICS)
            files = pprob
        else:
            m = rng.choice(DIAGRAMS)
            files = pprob
        argv = list(files) + ["-m", m]
        if rng.random() < 0.8:
            k = rng.randint(1, 4)
            ts = sorted(rng.sample([0, 1, 2, 3, 5, 7.5, 10, 12], k))
            if m in PROB_METRICS or m in ("reliability", "roc", "discrimination", "marginal"):
                ts = sorted(rng.sample([0, 2, 5, 10], min(k, 3)))
            if m in ("reliability", "roc", "discrimination", "performance", "droc"):
                ts = ts[:1]
            argv += ["-r", ",".join(gen.fnum(t) for t in ts)]
        if rng.random() < 0.7:
            argv += ["-b", rng.choice(BINS)]
        if rng.random() < 0.7:
            argv += ["-x", rng.choice(AXES)]
        if rng.random() < 0.3:
            argv += ["-agg", rng.choice(AGGS)]
        if m in ("quantilescore", "quantile") or rng.random() < 0.05:
            argv += ["-q", rng.choice(["0.1", "0.5", "0.1,0.9", "0.9"])]
        if m not in DIAGRAMS:
            argv += ["-type", rng.choice(["csv", "csv", "text", "plot"])]
        out.append(argv)
    return out


def run(ctx, seed, n, extra=None):
    """Execute n ambient commands (plus extra(pdet, pprob) -> [argv], a fixed list a check wants to be sure about);
    returns counts of outcomes. Crashes are not judged here (C19 does that)."""
    rng = random.Random("ambient-run-%s" % seed)
    pdet, pprob = make_files(ctx.workdir, seed)
    res = {"ok": 0, "exit": 0, "crash": 0}
    for argv in (extra(pdet, pprob) if extra else []) + commands(rng, pdet, pprob, n):
        o = runner.run_cli(argv)
        res[o.status] += 1
        ctx.count("ambient:" + o.status)
        m = argv[argv.index("-m") + 1]
        b = argv[argv.index("-b") + 1] if "-b" in argv else "default"
        x = argv[argv.index("-x") + 1] if "-x" in argv else "default"
        ctx.case("ambient|%s|%s|%s" % (m, b, x), False)
        if o.status == "crash":
            ctx.note("ambient crash (judged by C19): %s %s@%s" % (" ".join(a for a in argv if os.sep not in a), o.exc_type, o.where))
    return res
