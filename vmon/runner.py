"""In-process execution of the real verif CLI with outcome capture."""
import contextlib
import io
import os
import sys
import traceback

REPO = os.environ.get("VMON_REPO", "/repo")


class Outcome(object):
    __slots__ = ("status", "stdout", "exc_type", "exc_msg", "where", "tb", "code", "fig")

    def __init__(self):
        self.status = None   # "ok" | "exit" | "crash"
        self.stdout = ""
        self.exc_type = None
        self.exc_msg = None
        self.where = None
        self.tb = None
        self.code = None
        self.fig = None

    def brief(self):
        return {"status": self.status, "code": self.code, "exc": self.exc_type, "where": self.where,
                "msg": (self.exc_msg or "")[:200], "stdout_tail": self.stdout[-300:]}


def innermost_repo_frame(tb):
    """Qualified name of the innermost frame that belongs to /repo."""
    where = None
    for fs, lineno in traceback.walk_tb(tb):
        fn = fs.f_code.co_filename
        if fn.startswith(REPO):
            mod = os.path.relpath(fn, REPO)[:-3].replace(os.sep, ".")
            where = mod + "." + fs.f_code.co_qualname
    return where


def run_cli(args, keep_fig=False):
    """Run verif.driver.run(['verif'] + args). Never raises."""
    import verif.driver
    import matplotlib.pyplot as mpl
    out = Outcome()
    buf = io.StringIO()
    try:
        with contextlib.redirect_stdout(buf):
            verif.driver.run(["verif"] + [str(a) for a in args])
        out.status = "ok"
    except SystemExit as e:
        out.status = "exit"
        out.code = e.code
    except BaseException as e:  # noqa
        out.status = "crash"
        out.exc_type = type(e).__name__
        out.exc_msg = str(e)
        out.where = innermost_repo_frame(e.__traceback__)
        out.tb = "".join(traceback.format_exception(type(e), e, e.__traceback__))[-3000:]
    out.stdout = buf.getvalue()
    if keep_fig and out.status == "ok":
        out.fig = mpl.gcf()
    else:
        mpl.close("all")
    return out


def strip_ansi(s):
    import re
    return re.sub(r"\033\[[0-9;]*m", "", s)


def parse_csv(text):
    """Parse verif csv output -> (header list, rows list of lists of str)."""
    lines = [l for l in strip_ansi(text).split("\n") if l.strip() != "" and not l.startswith("Warning:")]
    lines = [l for l in lines if not l.startswith("Warning")]
    if not lines:
        return [], []
    header = lines[0].split(",")
    rows = [l.split(",") for l in lines[1:]]
    return header, rows


def run_cli_fresh(args, timeout=300):
    """The same command line in a FRESH interpreter (what a user's shell does): module-level state of an earlier run cannot
    leak in.  Returns (returncode, stdout, stderr)."""
    import subprocess
    import sys
    from vmon import common
    code = "import sys, verif.driver; verif.driver.run(['verif'] + sys.argv[1:])"
    env = dict(os.environ, MPLBACKEND="Agg", PYTHONWARNINGS="ignore", PYTHONPATH=common.REPO + os.pathsep + os.environ.get("PYTHONPATH", ""))
    try:
        r = subprocess.run([sys.executable, "-c", code] + [str(a) for a in args], stdout=subprocess.PIPE, stderr=subprocess.PIPE,
                           text=True, timeout=timeout, env=env)
    except subprocess.TimeoutExpired:
        return None, "", "timeout"
    return r.returncode, r.stdout, r.stderr
